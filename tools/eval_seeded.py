#!/usr/bin/env python3
"""eval_seeded.py [ids...]: run the quick checks against each seeded change (on scratch copies of /repo,
via VERIF_REPO, so /repo itself is never touched) and record which checks report it.
Writes seeded/RESULTS.json."""
import json, os, shutil, subprocess, sys, tempfile, concurrent.futures, re
V = os.environ.get("VERIF_HOME", "/verif")   # run from a snapshot copy so that edits to /verif do not disturb a long evaluation
PROPS = ["C%02d" % i for i in range(1, 13)]


def run_one(sid):
    d = os.path.join(V, "seeded", sid)
    tmp = tempfile.mkdtemp(prefix="evalseed-", dir="/root")
    repo = os.path.join(tmp, "repo")
    subprocess.run(["git", "clone", "-q", "/repo", repo], check=True)
    r = subprocess.run(["git", "-C", repo, "apply", os.path.join(d, "patch.diff")], capture_output=True, text=True)
    res = {"id": sid, "checks": {}}
    if r.returncode != 0:
        res["error"] = "patch does not apply: " + r.stderr
        shutil.rmtree(tmp)
        return res
    env = dict(os.environ, VERIF_REPO=repo, VERIF_EVID=os.path.join(tmp, "evid"))
    props = PROPS
    if os.environ.get("EVAL_PROPS") == "target":
        props = [json.load(open(os.path.join(d, "meta.json"))).get("property", sid[:3])]
    for p in props:
        for attempt in range(2):
            c = subprocess.run([os.path.join(V, "check"), p, "quick"], cwd=V, env=env, capture_output=True, text=True)
            vio = [l for l in c.stdout.splitlines() if l.startswith("VIOLATION")]
            if vio or c.returncode == 0:
                break   # a non-zero exit without a VIOLATION line is a crash of the check (e.g. a timeout under load): retry once
        if vio:
            concrete = not vio[0].endswith("no-failing-input-found")
            what = ""
            m = re.search(r"replay=(\S+)", vio[0])
            if m and os.path.exists(m.group(1)):
                try:
                    rp = json.load(open(m.group(1)))
                    f = rp.get("failure") or rp.get("mismatch") or rp.get("what") or ""
                    what = json.dumps(f)[:300]
                except Exception:
                    pass
            res["checks"][p] = dict(rc=c.returncode, violation=True, concrete=concrete, what=what)
        else:
            res["checks"][p] = dict(rc=c.returncode, violation=False, tail=(c.stdout + c.stderr).strip().splitlines()[-3:] if c.returncode else None)
    shutil.rmtree(tmp)
    return res


def main():
    ids = sys.argv[1:] or sorted(x for x in os.listdir(os.path.join(V, "seeded")) if os.path.isdir(os.path.join(V, "seeded", x)))
    out_path = os.path.join(V, "seeded", "RESULTS.json")
    if os.environ.get("EVAL_PROPS") == "target":
        out_path = os.path.join(V, "seeded", "RESULTS_target.json")   # target checks only, re-run at the final state
    results = json.load(open(out_path)) if os.path.exists(out_path) else {}
    with concurrent.futures.ThreadPoolExecutor(max_workers=int(os.environ.get("EVAL_WORKERS", "4"))) as ex:
        for r in ex.map(run_one, ids):
            results[r["id"]] = r
            json.dump(results, open(out_path, "w"), indent=1, sort_keys=True)
            target = r["id"][:3]
            hit = [p for p, c in r["checks"].items() if c.get("violation")]
            conc = [p for p, c in r["checks"].items() if c.get("violation") and c.get("concrete")]
            print(r["id"], "target", target, "reported by", hit, "concrete", conc, r.get("error", ""), flush=True)
    json.dump(results, open(out_path, "w"), indent=1, sort_keys=True)


if __name__ == "__main__":
    main()

import sys,subprocess,shutil,time; sys.path.insert(0,'/verif/lib')
from gb import shadow, gensched
tmp,vh=shadow.build()
seed=int(sys.argv[1]) if len(sys.argv)>1 else 1
cases=gensched.gen_sched_cases(seed, 300, shadow.TYPE_NAMES, orders=(4,8,2))
gensched.write_cases(cases, tmp+'/cc.txt')
t=time.time(); r=subprocess.run([vh,'sched',tmp+'/cc.txt',tmp+'/go.obs'],capture_output=True,text=True); print(r.returncode,r.stderr[-800:],time.time()-t)
t=time.time(); r=subprocess.run(['/verif/ocaml/concdriver',tmp+'/cc.txt',tmp+'/go.obs',tmp+'/model.obs'],capture_output=True,text=True); print(r.returncode,r.stdout[-300:],r.stderr[-800:],time.time()-t)
a=open(tmp+'/go.obs').read().split('\n'); b=open(tmp+'/model.obs').read().split('\n')
print(len(a),len(b), sum(1 for x in a if x.startswith('STEP')), 'deadlocks',sum(1 for x in a if x.startswith('DEADLOCK')), 'trunc', sum(1 for x in a if x.startswith('TRUNC')))
bad=0
for i,(x,y) in enumerate(zip(a,b)):
    if x!=y:
        bad+=1
        if bad<3:
            j=i
            while not a[j].startswith('RUN'): j-=1
            print(a[j]); print('GO   ',x[:600]); print('MODEL',y[:600])
print('mismatch lines',bad)
shutil.copy(tmp+'/go.obs','/root/go.obs'); shutil.copy(tmp+'/model.obs','/root/model.obs'); shutil.copy(tmp+'/cc.txt','/root/cc.txt')
shutil.rmtree(tmp)

(* PCb2_Proof.v — STABILITY: a step of thread [me] does not break the consistency ([pc_ok_b], CInv.v) of any OTHER
   thread's program counter with the tree.  See the summary at the end of the file. *)
From Coq Require Import List Permutation Lia Bool PeanoNat.
From GB Require Import ListLemmas TreeLemmas Inv InvProof Frame LockProof ConcProps CInv CIDef UpdLemmas FrameRel FrameInv FrameBlocks FrameProof
  PCb2_Bounds PCb2_View PCb2_Blocks PCb2_Step.
Import ListNotations.

Section Stab.
Variables (K V : Type) (ltb : K -> K -> bool).
Hypothesis HS : SWO ltb.
Notation itree := (itree K V).
Notation pc := (pc K V).
Notation st := (st K V).
Notation thread := (thread K V).

(* ---------- the extra (executable) invariant: a fresh right half is locked and awaited by nobody else ---------- *)
Definition wants (s : st) (p : pc) (x : id) : bool :=
  match target s p with Ok (Some (Some y)) => y =? x | _ => false end.

Definition right_free_b (s : st) : bool :=
  forallb (fun e =>
    match right_of (tpc (snd e)) with
    | None => true
    | Some r =>
      (match holder r (lk s) with None => true | Some _ => false end) &&
      forallb (fun e' => (fst e' =? fst e) || negb (wants s (tpc (snd e')) r)) (ths s)
    end) (ths s).

(* ---------- small facts ---------- *)
Lemma get_thread_in t (l : list (tid * thread)) th : get_thread t l = Some th -> In (t, th) l.
Proof.
  unfold get_thread. destruct (List.find (fun e => fst e =? t) l) as [e|] eqn:E; [|discriminate].
  intros H. inversion H; subst. apply find_some in E. destruct E as [E1 E2]. apply Nat.eqb_eq in E2.
  destruct e as [a b]. simpl in *. subst. exact E1.
Qed.

Lemma cstep_target order (s s' : st) me acq ev :
  cstep ltb order s me = Stepped s' acq ev ->
  exists th, get_thread me (ths s) = Some th /\ target s (tpc th) = Ok acq.
Proof.
  intros H. unfold cstep in H.
  destruct (get_thread me (ths s)) as [th|] eqn:Hme; [|discriminate H].
  destruct (target s (tpc th)) as [tg|] eqn:Htg; [|discriminate H].
  destruct (negb (is_free s tg)); [discriminate H|].
  match type of H with match ?B with _ => _ end = _ => destruct B as [[o|]|]; try discriminate H end.
  inversion H; subst. eauto.
Qed.

Lemma div2_ge2 n : 4 <= n -> 2 <= Nat.div2 n.
Proof. destruct n as [|[|[|[|n]]]]; simpl; lia. Qed.

(* ---------- the general form ---------- *)
Theorem other_pc_ok_step_gen : forall order (s s' : st) me acq ev t th,
  Nat.even order = true -> 4 <= order ->
  CIfull ltb order s -> all_inv K V s ->
  cstep ltb order s me = Stepped s' acq ev ->
  t <> me -> get_thread t (ths s) = Some th ->
  (forall r, right_of (tpc th) = Some r -> ~ In r (held_by me (lk s)) /\ acq <> Some (Some r)) ->
  pc_ok_b ltb order (tr s') (tpc th) = true.
Proof.
  intros order s s' me acq ev t th Hev H4 [[HGI [_ Hall]] _] (Hids & Hli2 & Hfi) Hstep Hne Hget Hright.
  assert (Hpc : pc_ok_b ltb order (tr s) (tpc th) = true).
  { unfold all_pc_ok_b in Hall. rewrite forallb_forall in Hall. apply (Hall (t, th)). apply get_thread_in. exact Hget. }
  pose proof (GI_lossless K V ltb order s Hev HGI) as Hll.
  assert (HJ : J ltb (tr s)).
  { destruct HGI as (_ & _ & Ho & Hb & _). eapply J_of_ordered; eauto. }
  assert (Hord : 1 <= Nat.div2 order) by (pose proof (div2_ge2 order H4); lia).
  pose proof (cstep_bm K V ltb HS order s s' me acq ev Hord Hids Hli2 Hfi Hll HJ Hstep) as Hbm.
  pose proof Hli2 as [Hli _]. pose proof Hli as (_ & _ & _ & _ & Hth).
  destruct (Hth t th Hget) as (_ & HPt & HTt).
  assert (Hfoot : forall x, In x (pc_foot (tpc th)) -> ~ In x (held_by me (lk s)) /\ acq <> Some (Some x)).
  { intros x Hx. unfold pc_foot in Hx. apply in_app_iff in Hx. destruct Hx as [Hx|Hx].
    - assert (Hxt : In x (held_by t (lk s))) by (eapply Permutation_in; [apply Permutation_sym; exact HPt | exact Hx]).
      split.
      + intro X. apply Hne. eapply (locks_exclusive K V s x t me); eauto.
      + intro X. subst acq. eapply (granted_was_free K V ltb order s s' me x ev t); eauto.
    - destruct (right_of (tpc th)) as [r|] eqn:Er; [|destruct Hx]. destruct Hx as [<-|[]]. apply Hright. reflexivity. }
  apply pc_ok_transfer with (t := tr s); [| | |exact Hpc].
  - intros x Hx Hin. destruct (Hfoot x Hx) as [F1 F2].
    eapply step_frame; eauto.
  - intros x k Hx Hr. destruct (Hfoot x Hx) as [F1 F2].
    eapply in_range_bm; [exact Hbm| |exact Hr].
    pose proof (in_range_in K V ltb k x (tr s) Hr) as Hin.
    destruct Hids as [_ Hlt]. rewrite Forall_forall in Hlt. apply Hlt in Hin.
    unfold wset. rewrite !in_app_iff. intros [[X|X]|X].
    + tauto.
    + destruct acq as [[y|]|]; simpl in X; try contradiction. destruct X as [<-|[]]. apply F2. reflexivity.
    + simpl in X. lia.
  - intros HT. destruct (Nat.eq_dec (nid (tr s')) (nid (tr s))) as [E|E]; [exact E|]. exfalso.
    pose proof (root_frame_strong K V ltb order s s' me acq ev Hli2 Hstep E) as Hm.
    apply HTt in HT. rewrite HT in Hm. inversion Hm. auto.
Qed.

(* ---------- the statement as asked, for every pc that does not await a fresh right half ---------- *)
Theorem other_pc_ok_step_noright : forall order (s s' : st) me acq ev t th,
  Nat.even order = true -> 4 <= order ->
  CIfull ltb order s -> all_inv K V s ->
  cstep ltb order s me = Stepped s' acq ev ->
  t <> me -> get_thread t (ths s) = Some th ->
  right_of (tpc th) = None ->
  pc_ok_b ltb order (tr s') (tpc th) = true.
Proof.
  intros. eapply other_pc_ok_step_gen; eauto. intros r Hr. congruence.
Qed.

(* ---------- the statement as asked, with the extra executable invariant ---------- *)
Theorem other_pc_ok_step : forall order (s s' : st) me acq ev t th,
  Nat.even order = true -> 4 <= order ->
  CIfull ltb order s -> all_inv K V s -> right_free_b s = true ->
  cstep ltb order s me = Stepped s' acq ev ->
  t <> me -> get_thread t (ths s) = Some th ->
  pc_ok_b ltb order (tr s') (tpc th) = true.
Proof.
  intros order s s' me acq ev t th Hev H4 HCI Hall Hrf Hstep Hne Hget.
  eapply other_pc_ok_step_gen; eauto. intros r Hr.
  unfold right_free_b in Hrf. rewrite forallb_forall in Hrf.
  specialize (Hrf (t, th) (get_thread_in _ _ _ Hget)). simpl in Hrf. rewrite Hr in Hrf.
  apply andb_prop in Hrf. destruct Hrf as [R1 R2]. split.
  - destruct (holder r (lk s)) eqn:Hh; [discriminate R1|]. apply holder_none in Hh.
    intro X. apply In_held_by in X. apply Hh. apply in_map_iff. exists (r, me). auto.
  - intro X. subst acq. destruct (cstep_target order s s' me _ ev Hstep) as [thm [Hgm Htg]].
    rewrite forallb_forall in R2. specialize (R2 (me, thm) (get_thread_in _ _ _ Hgm)). simpl in R2.
    unfold wants in R2. rewrite Htg, Nat.eqb_refl in R2. simpl in R2. rewrite orb_false_r in R2.
    apply Nat.eqb_eq in R2. auto.
Qed.

(* the extra invariant holds initially *)
Lemma right_free_init : forall progs, right_free_b (init_st (K:=K) (V:=V) progs) = true.
Proof.
  intros progs. unfold right_free_b, init_st. simpl. apply forallb_forall. intros e He.
  apply in_map_iff in He. destruct He as [p [<- _]]. reflexivity.
Qed.

End Stab.

(* ------------------------------------------------------------------------------------------------ *)
(* DISCREPANCY: without the extra invariant the statement is false (machine-checked, K = V = nat, order 4) *)
(* ------------------------------------------------------------------------------------------------ *)
Section Counterexample.

(* Thread 0 (Insert 9) has split the root leaf and rests at InsWantRootRight _ 1 2: it holds the left half 1 and the
   tree mutex and waits for the fresh right half 2, a leaf with 3 < 4 pairs.  Thread 1 (Insert 6) rests at
   InsWantChild _ 3 2 1: it holds the new root 3 and waits for the same leaf 2.  This state is NOT reachable (thread
   1 could not lock the new root while thread 0 holds the tree mutex) but it satisfies CIfull and all_inv.  The step
   of thread 1 locks leaf 2 and inserts key 6: the leaf now has 4 = order pairs and thread 0's pc is no longer
   consistent with the tree ("icount rt < order" fails). *)
Definition cexR : st nat nat :=
  {| tr := INode 3 [(1, ILeaf 1 (Some 2) [(1, 1); (2, 2)]); (3, ILeaf 2 None [(3, 3); (4, 4); (5, 5)])];
     tm := Some 0; lk := [(1, 0); (3, 1)]; fresh := 4;
     ths := [(0, {| prog := [CInsert 9 9]; tpc := InsWantRootRight (CInsert 9 9) 1 2; results := [] |});
             (1, {| prog := [CInsert 6 6]; tpc := InsWantChild (CInsert 6 6) 3 2 1; results := [] |})] |}.

Lemma two_threads (p0 p1 : thread nat nat) t th :
  get_thread t [(0, p0); (1, p1)] = Some th -> (t = 0 /\ th = p0) \/ (t = 1 /\ th = p1).
Proof.
  unfold get_thread. simpl. destruct t as [|[|t]]; simpl; intros H; inversion H; auto.
Qed.

Lemma cexR_GI : GI Nat.ltb 4 cexR.
Proof.
  unfold GI, cexR. simpl tr. simpl fresh.
  split; [simpl; repeat constructor; simpl; intuition discriminate|].
  split; [simpl; repeat constructor|].
  split; [apply ordered_b_iff; vm_compute; reflexivity|].
  split; [apply (bal_b_iff nat nat Nat.ltb); vm_compute; reflexivity|].
  split; [simpl; repeat split; lia|].
  simpl. auto.
Qed.

Lemma cexR_inv2 : lock_inv2 nat nat cexR.
Proof.
  split.
  - unfold lock_inv, cexR. simpl.
    split; [repeat constructor; simpl; intuition discriminate|].
    split; [repeat constructor; simpl; intuition discriminate|].
    split; [intros x t [H|[H|[]]]; inversion H; subst; eexists; reflexivity|].
    split; [intros t H; inversion H; subst; eexists; reflexivity|].
    intros t th H. apply two_threads in H. destruct H as [[-> ->]|[-> ->]]; simpl.
    + split; [exact I|]. split; [apply Permutation_refl | tauto].
    + split; [exact I|]. split; [apply Permutation_refl | split; discriminate].
  - intros t th H. apply two_threads in H. destruct H as [[-> ->]|[-> ->]]; exact I.
Qed.

Lemma cexR_CIfull : CIfull Nat.ltb 4 cexR.
Proof.
  split; [split; [exact cexR_GI | split; [exact cexR_inv2 | vm_compute; reflexivity]] | vm_compute; reflexivity].
Qed.

Lemma cexR_all_inv : all_inv nat nat cexR.
Proof.
  split; [|split; [exact cexR_inv2|]].
  - unfold ids_ok, cexR. simpl. split; [repeat constructor; simpl; intuition discriminate | repeat constructor].
  - intros t th H. apply two_threads in H. destruct H as [[-> ->]|[-> ->]]; simpl; [exact I|].
    split; [lia|]. intros vcs Hv. vm_compute in Hv. inversion Hv; subst. exists 3. reflexivity.
Qed.

Theorem other_pc_ok_step_needs_right_free :
  exists (s s' : st nat nat) me acq ev t th,
    CIfull Nat.ltb 4 s /\ all_inv nat nat s /\
    cstep Nat.ltb 4 s me = Stepped s' acq ev /\
    t <> me /\ get_thread t (ths s) = Some th /\
    pc_ok_b Nat.ltb 4 (tr s) (tpc th) = true /\
    pc_ok_b Nat.ltb 4 (tr s') (tpc th) = false /\
    right_free_b nat nat s = false.
Proof.
  exists cexR. eexists. exists 1. eexists. eexists. exists 0. eexists.
  split; [exact cexR_CIfull|]. split; [exact cexR_all_inv|].
  split; [vm_compute; reflexivity|].
  split; [discriminate|]. split; [reflexivity|].
  split; [vm_compute; reflexivity|]. split; vm_compute; reflexivity.
Qed.

End Counterexample.

Print Assumptions other_pc_ok_step_gen.
Print Assumptions other_pc_ok_step_noright.
Print Assumptions other_pc_ok_step.
Print Assumptions other_pc_ok_step_needs_right_free.

(* STATUS: everything above is proved; no axioms, nothing admitted.

   Files: PCb2_Bounds.v (key ranges as a lookup in the flattened list [bnodes]; [upd] rewrites one segment; the
   order [brel] "range does not shrink"; [bm W t t'] : every node outside W keeps or widens its range),
   PCb2_View.v ([pc_ok_transfer]: pc_ok_b depends only on the fields and ranges of the nodes in [pc_foot] and on the
   root identity), PCb2_Blocks.v ([bm] for every atomic block: leaf writes, separator update, child split, root split,
   root collapse, the four outcomes of irebalance ([reb_shape], [irebalance_shape]), the whole unwinding of Delete
   ([unwind_bm]); the invariant [J] of the intermediate trees of an unwinding), PCb2_Step.v ([cstep_bm]: every step
   is [bm] for its write set), this file, PCb2_Tree.v / PCb2_RightFree.v (the extra invariant is inductive),
   PCb2_Test.v (executable validation).

   Proved here:
     other_pc_ok_step_gen     : the requested statement + hypothesis
                                "forall r, right_of (tpc th) = Some r -> ~ In r (held_by me (lk s)) /\ acq <> Some (Some r)"
     other_pc_ok_step_noright : the requested statement verbatim for every pc of thread t other than
                                InsWantRootRight / InsWantSplitRight (right_of (tpc th) = None)
     other_pc_ok_step         : the requested statement + hypothesis [right_free_b s = true] (executable)
     other_pc_ok_step_needs_right_free : the requested statement is FALSE as written (counterexample cexR: a state that
                                satisfies CIfull and all_inv, not reachable, in which another thread also awaits the
                                fresh right half and fills it up to [order] pairs).
   In PCb2_RightFree.v: [rfi_b] (executable strengthening of right_free_b), [rfi_right_free : rfi_b s = true ->
   right_free_b s = true], [rfi_b_init], and [rfi_b_step]: CIfull s -> all_inv s -> rfi_b s = true -> cstep s me = Stepped
   s' .. -> CIfull s' -> rfi_b s' = true; hence [other_pc_ok_step_rfi].  So CIfull /\ all_inv /\ rfi_b is the invariant
   to prove inductive; the clause "other threads' pcs stay consistent" of that proof is [other_pc_ok_step_rfi]. *)

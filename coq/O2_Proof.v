(* O2_Proof.v — the final theorems of Final.v extended to every EVEN order >= 2 (in particular ORDER 2) for client
   programs that never call Delete.  Assembly as in ASM_Proof.v, with the invariant BigInv /\ nodel and the
   component theorems re-proved without 4 <= order in O2_Occ / O2_Crash / O2_PC / O2_PCc / O2_Lin.
   See the summary at the end of the file. *)
From Coq Require Import List Bool PeanoNat Lia.
From GB Require Import Model Inv Conc GI CInv CIDef CInv3 NoDeadlock Lin LinDef SoloBase LINc_Blocks LINc_Proof LockProof FrameProof
  GIa1_Proof PCb1_Proof PCb2_Proof PCb2_RightFree OCCc_Blocks OCCc_Proof OCCc_Op OCCc_Crash LINa_Proof LINb_Proof LINb_Prog
  PCc_Proof ASM_Proof O2_NoDel O2_Occ O2_Crash O2_PC O2_PCc O2_Lin.
Import ListNotations.

Section O2.
Variables (K V : Type) (ltb : K -> K -> bool).
Hypothesis HS : SWO ltb.
Variable order : nat.
Hypothesis Heven : Nat.even order = true.
Hypothesis H2 : 2 <= order.
Notation st := (st K V).

Local Notation Base := (ASM_Proof.Base K V ltb order).
Local Notation BigInv := (ASM_Proof.BigInv K V ltb order).

(* the invariant: ASM_Proof.BigInv (which contains LINb_Prog.prog_ok) plus "no program contains a Delete" *)
Definition BigInvND (s : st) : Prop := BigInv s /\ nodel K V s.

Lemma BigInvND_ND s : BigInvND s -> ND K V s.
Proof. intros [(_ & _ & _ & _ & _ & HP) Hn]. split; assumption. Qed.

Lemma order1 : 1 <= order. Proof. lia. Qed.

Lemma ND_me (s : st) me : ND K V s -> forall th, get_thread me (ths s) = Some th -> del_pc_b K V (tpc th) = false.
Proof. intros H th Hg. exact (ND_pc K V s me th H Hg). Qed.

(* ---- one step ---- *)
Lemma GI_step_nd s s' me acq ev :
  ND K V s -> CIfull ltb order s -> all_inv K V s -> cstep ltb order s me = Stepped s' acq ev -> GI ltb order s'.
Proof.
  intros HND HF HA Hc. destruct (stepped_thread K V ltb order s s' me acq ev Hc) as (th & Hg).
  pose proof (del_pc_is_delete K V _ (ND_pc K V s me th HND Hg)) as Ed.
  eapply (gi_step_nondelete K V ltb HS order s s' me th acq ev Heven H2 (proj1 HF) HA Hg); [|exact Hc].
  exact Ed.
Qed.

Lemma all_pc_ok_step_nd s s' me acq ev :
  CIfull ltb order s -> all_inv K V s -> all_left_pos_b K V s = true -> rfi_b K V s = true ->
  lock_inv2 K V s' ->
  cstep ltb order s me = Stepped s' acq ev -> all_pc_ok_b ltb order s' = true.
Proof.
  intros HF HA HL HR HL2' Hc. apply all_pc_ok_intro.
  - exact (proj1 (proj2 (proj1 HL2'))).
  - intros t th' Hg'. destruct (Nat.eq_dec t me) as [->|Hne].
    + eapply (own_pc_ok_step_x_nd K V ltb HS); eauto using order1.
    + rewrite (step_other_thread K V ltb order s s' me acq ev t Hc Hne) in Hg'.
      eapply (other_pc_ok_step_rfi_nd K V ltb HS); eauto.
Qed.

Lemma CIfull_step_nd s s' me acq ev :
  Base s -> ND K V s -> cstep ltb order s me = Stepped s' acq ev -> CIfull ltb order s'.
Proof.
  intros ((HF & HA & HL & _ & _) & HSm & _ & HR) HND Hc.
  assert (HL2' : lock_inv2 K V s').
  { eapply lock_inv2_step; [|exact Hc]. exact (proj1 (proj2 (proj1 HF))). }
  split; [split; [|split]|].
  - eapply GI_step_nd; eauto.
  - exact HL2'.
  - eapply all_pc_ok_step_nd; eauto.
  - eapply (occ_step_nd K V ltb order s s' me acq ev Heven H2 (ND_me s me HND)); eauto.
Qed.

Lemma Base_step_nd s s' me acq ev :
  Base s -> ND K V s -> cstep ltb order s me = Stepped s' acq ev -> Base s'.
Proof.
  intros HB HND Hc. pose proof (CIfull_step_nd _ _ _ _ _ HB HND Hc) as HF'.
  pose proof HB as ((HF & HA & HL & _ & _) & HSm & HOp & HR).
  unfold ASM_Proof.Base, CIall. split; [split; [|split; [|split; [|split]]]|split; [|split]].
  - exact HF'.
  - eapply all_inv_step; eauto.
  - eapply all_left_pos_step; eauto.
  - exact (pc_ok2_step_nd K V ltb HS order s s' me acq ev Heven H2 HB Hc).
  - exact (pc_ok3_step_nd K V ltb HS order s s' me acq ev Heven H2 HB Hc).
  - eapply (small_step_nd K V ltb order s s' me acq ev Heven H2 (ND_me s me HND)); eauto.
  - eapply op_step; eauto.
  - eapply rfi_b_step; eauto.
Qed.

Theorem BigInvND_step : forall s s' me acq ev,
  BigInvND s -> cstep ltb order s me = Stepped s' acq ev -> BigInvND s'.
Proof.
  intros s s' me acq ev HB Hc. pose proof (BigInvND_ND _ HB) as HND.
  destruct HB as [HB Hn]. pose proof (BigInv_Base K V ltb order _ HB) as Hb.
  destruct (Base_step_nd _ _ _ _ _ Hb HND Hc) as (A & B & C & D).
  destruct HB as (HC & _ & _ & _ & HLE & HPO).
  split; [|eapply nodel_step; eauto].
  unfold ASM_Proof.BigInv. split; [|split; [|split; [|split; [|split]]]]; try assumption.
  - exact (lin_extra_step K V ltb HS order s s' me acq ev Heven H2 HC HLE Hc).
  - eapply LINb_Prog.prog_ok_step; eauto.
Qed.

Theorem BigInvND_init : forall progs, NoDup (map fst progs) -> no_delete_progs K V progs -> BigInvND (init_st progs).
Proof.
  intros progs Hnd Hno. split.
  - apply (BigInv_init K V ltb order (all_pc_ok2_init K V) (all_pc_ok3_init K V ltb)). exact Hnd.
  - apply nodel_init. exact Hno.
Qed.

Lemma BigInvND_exec : forall sched s, BigInvND s -> BigInvND (fst (exec ltb order s sched)).
Proof.
  induction sched as [|t r IH]; intros s HB; simpl; [exact HB|].
  destruct (cstep ltb order s t) as [ | | |s' acq ev|p] eqn:Hc; try exact HB.
  specialize (IH s' (BigInvND_step _ _ _ _ _ HB Hc)).
  destruct (exec ltb order s' r) as [s'' h]. exact IH.
Qed.

Theorem BigInvND_reachable : forall progs sched, NoDup (map fst progs) -> no_delete_progs K V progs ->
  BigInvND (fst (exec ltb order (init_st progs) sched)).
Proof. intros progs sched Hnd Hno. apply BigInvND_exec. apply BigInvND_init; assumption. Qed.

(* ------------------------------------------------------------------------------------------------ *)
(* the final theorems                                                                                 *)
(* ------------------------------------------------------------------------------------------------ *)
Section Progs.
Variable progs : list (tid * list (cop K V)).
Hypothesis Hnd : NoDup (map fst progs).
Hypothesis Hno : no_delete_progs K V progs.

(* the whole concurrent invariant CIall (GI, lock table, pcs consistent with the tree, occupancy, frames) *)
Theorem o2_invariant_reachable : forall sched, CIall ltb order (fst (exec ltb order (init_st progs) sched)).
Proof. intros sched. exact (proj1 (proj1 (BigInvND_reachable progs sched Hnd Hno))). Qed.

Theorem o2_GI_reachable : forall sched, GI ltb order (fst (exec ltb order (init_st progs) sched)).
Proof. intros sched. exact (proj1 (proj1 (proj1 (o2_invariant_reachable sched)))). Qed.

(* in every reachable state no program contains a Delete and no thread is at a Delete pc *)
Theorem o2_nodel_reachable : forall sched, ND K V (fst (exec ltb order (init_st progs) sched)).
Proof. intros sched. apply BigInvND_ND. apply BigInvND_reachable; assumption. Qed.

Theorem o2_no_crash : forall sched me p, cstep ltb order (fst (exec ltb order (init_st progs) sched)) me <> Crash p.
Proof.
  intros sched me p. pose proof (BigInvND_reachable progs sched Hnd Hno) as HB.
  pose proof (BigInvND_ND _ HB) as HND. destruct HB as [((HF & HA & _) & HSm & HOp & _) _].
  apply (no_crash_nd K V ltb order _ me p Heven H2 HND HF HA HSm HOp).
Qed.

Theorem o2_no_deadlock : forall sched,
  let s := fst (exec ltb order (init_st progs) sched) in
  (exists t, unfinished s t = true) -> exists t, enabled order s t = true.
Proof.
  intros sched s Hun. subst s.
  destruct (BigInvND_reachable progs sched Hnd Hno) as [((HF & _ & _ & Hp2 & _) & _) _].
  eapply ci2_no_deadlock; [|exact Hun]. split; [exact (proj1 HF)|exact Hp2].
Qed.

(* ---- linearizability: ASM_Proof's GenAssembly for this fixed set of programs ---- *)
Lemma BigInvND_abs_step_ok : forall (s : st) me, BigInvND s -> abs_step_ok ltb order s me.
Proof.
  intros s me HB. pose proof (BigInvND_ND _ HB) as HND. destruct HB as [(HC & _ & _ & _ & HLE & HPO) _].
  destruct (get_thread me (ths s)) as [th|] eqn:Hg.
  - eapply (abs_step_nondelete_nd K V ltb HS order s me th Heven H2 HC HLE Hg).
    exact (del_pc_is_delete K V _ (ND_pc K V s me th HND Hg)).
  - intros s' acq ev Hc. rewrite (nothread_step K V ltb order s me Hg) in Hc. discriminate.
Qed.

Lemma BigInvND_promise_step_ok : forall (s : st) me, BigInvND s -> promise_step_ok ltb order s me.
Proof.
  intros s me [HB _] s' acq ev Hc. split.
  - intros Hd. exact (promise_own_nd K V ltb HS order s s' me acq ev Heven H2 (proj1 HB) Hc Hd).
  - intros t Hne. exact (decided_other_step_nd K V ltb order s s' me acq ev t Heven H2 (BigInv_Base K V ltb order s HB) Hc Hne).
Qed.

Lemma reachable_ND sched : BigInvND (is_st (iexec ltb order (iinit progs) sched)).
Proof. rewrite iexec_st. simpl. apply BigInvND_reachable; assumption. Qed.

Lemma ghost_ok_exec_nd : forall sched (i : istate K V),
  (forall sched', BigInvND (is_st (iexec ltb order i sched'))) ->
  ghost_ok ltb i -> ghost_ok ltb (iexec ltb order i sched).
Proof.
  induction sched as [|t r IH]; intros i HCI Hok; simpl; [exact Hok|].
  destruct (istep ltb order i t) as [[i' ev]|] eqn:Hi; [|exact Hok].
  apply IH.
  - intros sched'. specialize (HCI (t :: sched')). simpl in HCI. rewrite Hi in HCI. exact HCI.
  - pose proof (HCI []) as C0. simpl in C0.
    eapply ghost_ok_step; [apply BigInvND_abs_step_ok; exact C0|apply BigInvND_promise_step_ok; exact C0|exact Hok|exact Hi].
Qed.

Theorem o2_linearizable : forall sched me, lin_step_ok ltb order (iexec ltb order (iinit progs) sched) me.
Proof.
  intros sched me. pose proof (reachable_ND sched) as C.
  apply ghost_ok_lin; [apply BigInvND_abs_step_ok; exact C|apply BigInvND_promise_step_ok; exact C|].
  apply ghost_ok_exec_nd; [intros sched'; apply reachable_ND|apply ghost_ok_init].
Qed.

End Progs.
End O2.

Check o2_invariant_reachable.
Check o2_GI_reachable.
Check o2_nodel_reachable.
Check o2_no_crash.
Check o2_no_deadlock.
Check o2_linearizable.
Print Assumptions o2_invariant_reachable.
Print Assumptions o2_GI_reachable.
Print Assumptions o2_no_crash.
Print Assumptions o2_no_deadlock.
Print Assumptions o2_linearizable.

(* instance: ORDER 2 *)
Theorem order2_linearizable (K V : Type) (ltb : K -> K -> bool) (HS : SWO ltb) progs sched me :
  NoDup (map fst progs) -> no_delete_progs K V progs ->
  lin_step_ok ltb 2 (iexec ltb 2 (iinit progs) sched) me.
Proof. intros. apply o2_linearizable; auto. Qed.

Theorem order2_no_crash (K V : Type) (ltb : K -> K -> bool) (HS : SWO ltb) progs sched me p :
  NoDup (map fst progs) -> no_delete_progs K V progs ->
  cstep ltb 2 (fst (exec ltb 2 (init_st progs) sched)) me <> Crash p.
Proof. intros. apply o2_no_crash; auto. Qed.

(* ---- non-vacuity: a concrete instance at ORDER 2 (K = V = nat) in which splits really happen ---- *)
Section Instance.
Definition progs_ex : list (tid * list (cop nat nat)) :=
  [(0, [CInsert 1 10; CInsert 2 20; CInsert 3 30; CInsert 4 40; CInsert 5 50]);
   (1, [CSearch 2; CUpdate 3 (fun _ => 33); CScan 1 4]);
   (2, [CInsert 7 70; CInsert 6 60])].

Lemma progs_ex_nodup : NoDup (map fst progs_ex).
Proof. simpl. repeat constructor; simpl; intuition discriminate. Qed.

Lemma progs_ex_nodelete : no_delete_progs nat nat progs_ex.
Proof.
  intros t p o Hin Ho k. simpl in Hin.
  repeat (destruct Hin as [Hin|Hin]; [inversion Hin; subst; clear Hin; simpl in Ho;
    repeat (destruct Ho as [Ho|Ho]; [subst o; discriminate|]); destruct Ho|]). destruct Hin.
Qed.

(* a fair greedy schedule: rotate over the threads, take the first one that can step (exec stops at a blocked step) *)
Fixpoint gen_sched (fuel : nat) (s : st nat nat) (rot : nat) : list tid :=
  match fuel with
  | 0 => []
  | S f =>
    let cands := [rot mod 3; (rot + 1) mod 3; (rot + 2) mod 3] in
    match List.find (fun t => match cstep Nat.ltb 2 s t with Stepped _ _ _ => true | _ => false end) cands with
    | Some t => match cstep Nat.ltb 2 s t with Stepped s' _ _ => t :: gen_sched f s' (S rot) | _ => [] end
    | None => []
    end
  end.
Definition sched_ex : list tid := gen_sched 400 (init_st progs_ex) 0.
Definition fin_ex := fst (exec Nat.ltb 2 (init_st progs_ex) sched_ex).

(* every program runs to completion, and the tree of the final state is an internal node of height >= 2 over
   order-2 leaves: leaves and internal nodes have been split *)
Lemma ex_finished : forallb (fun e => match prog (snd e) with [] => true | _ => false end) (ths fin_ex) = true.
Proof. vm_compute. reflexivity. Qed.
Lemma ex_splits : (2 <=? Model.height (erase_ids (tr fin_ex))) && (length (Model.entries (erase_ids (tr fin_ex))) =? 7) = true.
Proof. vm_compute. reflexivity. Qed.

Theorem ex_linearizable : forall sched me, lin_step_ok Nat.ltb 2 (iexec Nat.ltb 2 (iinit progs_ex) sched) me.
Proof. intros. apply (order2_linearizable nat nat Nat.ltb PCb1_Proof.nat_SWO); [exact progs_ex_nodup|exact progs_ex_nodelete]. Qed.
End Instance.

(* SUMMARY (agent O2).  Everything in the O2_*.v files is proved; no axioms (all "Closed under the global context").
   Compile order: O2_NoDel, O2_Occ, O2_Crash, O2_PC, O2_PCc, O2_Lin, O2_Proof   (coqc -Q . GB <file>).

   Premises of every final theorem: SWO ltb, Nat.even order = true, 2 <= order, NoDup (map fst progs),
   no_delete_progs K V progs   (O2_NoDel.no_delete_progs:
        forall t p o, In (t, p) progs -> In o p -> forall k, o <> CDelete k).
     o2_invariant_reachable : CIall ltb order (fst (exec ltb order (init_st progs) sched))
     o2_GI_reachable        : GI ltb order (fst (exec ltb order (init_st progs) sched))
     o2_nodel_reachable     : ND K V (...)      (no program contains a Delete /\ LINb_Prog.prog_ok; hence no Delete pc: ND_pc)
     o2_no_crash            : cstep ltb order (fst (exec ...)) me <> Crash p
     o2_no_deadlock         : let s := fst (exec ...) in (exists t, unfinished s t = true) -> exists t, enabled order s t = true
     o2_linearizable        : lin_step_ok ltb order (iexec ltb order (iinit progs) sched) me
   and the order-2 instances order2_linearizable, order2_no_crash, plus a concrete non-vacuity instance (Section Instance).

   Inductive invariant: BigInvND s := ASM_Proof.BigInv K V ltb order s /\ nodel K V s, where
     nodel s := every thread's remaining program contains no CDelete   (O2_NoDel: nodel_init, nodel_step: no hypothesis).
   With LINb_Prog.prog_ok (part of BigInv) this gives del_pc_b (tpc th) = false for every thread (nodel_pc / ND_pc):
   no thread is at WantT (CDelete _), WantRoot (CDelete _) _, DelWantLeft, DelWantChild, DelWantRight; hence
   is_delete_pc = false (del_pc_is_delete) and exempt_node s = None (ND_exempt).

   Where the components used 4 <= order, and what was done:
     GIa1 gi_step_nondelete, LINa lin_extra_step, PCb2 rfi_b_step, all_inv_step, all_left_pos_step, op_step, lock_inv2_step,
       LINb prog_ok_step, ci2_no_deadlock, BigInv_init, ghost_ok_*        : already free of 4 <= order; used as they are.
     PCb1 own_pc_ok_step_x    : own_core needs 1 <= order; O2_PC.own_pc_ok_step_x_nd is a 4-line re-derivation.
     PCb2 other_pc_ok_step_*  : 4 <= order only gives 1 <= div2 order for cstep_bm; O2_PC copies the script with that line
                                changed (other_pc_ok_step_gen_nd / _nd / _rfi_nd).  No "no Delete" hypothesis needed.
     PCc pc_ok2/pc_ok3/decided_other_step : same single use (o_bm); O2_PCc copies Section Other and the theorems (suffix _nd).
                                No "no Delete" hypothesis needed.
     OCCc occ_step, small_step : cstep_occ uses 4 <= order only in the two unwinding branches (DelWantChild, DelWantRight,
                                via unwind_occ); O2_Occ.cstep_occ_nd copies the script with the hypothesis
                                "the stepping thread is not at a Delete pc" and discharges the two branches by contradiction.
     OCCc no_crash            : 4 <= order is used (a) for non-emptiness of nodes (ne_nodes: root_min = 2, div2 >= 2 and the
                                exempt node of a Delete having div2 - 1 >= 1 entries) and (b) in unwind_total.  O2_Crash:
                                ne_nodes_nd (exempt_node s = None, 1 <= root_min order, 1 <= div2 order), blk_total_nd with the
                                three Del* branches discharged, no_crash_nd (hypothesis ND s).
     LINa abs_step_nondelete, promise_own : 4 <= order only used to derive 2 <= order (resp. unused); O2_Lin copies the scripts.
     GIa2 gi_step_delete, LINb abs_step_delete : not needed (no Delete pc is ever reached).
   Assembly (this file) follows ASM_Proof.v; GenAssembly is redone for the fixed [progs] (G3 of linearizable_by_lps_gen
   quantifies over all programs, here reachability needs no_delete_progs progs).

   Nothing remains open for the no-Delete case.  (With Delete at order 2 the statements are false: known finding.) *)

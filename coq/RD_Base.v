(* RD_Base.v — READ discipline (non-interference) for the concurrent model: definitions and the basic toolkit.
     agree_on W t1 t2     : the two trees give the same own fields (node_view) to every node of W
     tsim n1 n2           : two subtrees with the same identity and the same top node fields
     pres N t1 t2 t1' t2' : every node on which t1,t2 agree (and every node of N) is a node on which t1',t2' agree
     osim N t1 t2 o1 o2   : two block outcomes that are equal except for the trees, which are related by pres and have
                            the same root identity if t1,t2 have *)
From Coq Require Import List Permutation Lia Bool PeanoNat.
From GB Require Import ListLemmas TreeLemmas Frame LockProof UpdLemmas FrameRel FrameInv FrameBlocks OCCc_Base OCCc_Total.
Import ListNotations.

Section RDBase.
Variables (K V : Type).
Notation itree := (itree K V).
Notation view := (view K V).
Notation pc := (pc K V).
Notation st := (st K V).
Notation out := (out K V).

Definition agree_on (W : list id) (t1 t2 : itree) : Prop := forall x, In x W -> node_view x t1 = node_view x t2.

(* what thread me may look at in state s: the nodes it holds plus the node it is being granted *)
Definition footprint (s : st) (me : tid) (tg : option (option id)) : list id := held_by me (lk s) ++ granted tg.

Definition tsim (n1 n2 : itree) : Prop := nid n1 = nid n2 /\ view_of n1 = view_of n2.

Definition pres (N : list id) (t1 t2 t1' t2' : itree) : Prop :=
  forall y, node_view y t1 = node_view y t2 \/ In y N -> node_view y t1' = node_view y t2'.

Definition osim (N : list id) (t1 t2 : itree) (o1 o2 : out) : Prop :=
  olk o2 = olk o1 /\ ofresh o2 = ofresh o1 /\ otm o2 = otm o1 /\ opc o2 = opc o1 /\ oev o2 = oev o1 /\
  (nid t1 = nid t2 -> nid (otr o1) = nid (otr o2)) /\
  pres N t1 t2 (otr o1) (otr o2).

(* ---- pres ---- *)
Lemma pres_refl t1 t2 : pres [] t1 t2 t1 t2.
Proof. intros y [H|[]]. exact H. Qed.

Lemma pres_trans N t1 t2 u1 u2 v1 v2 : pres N t1 t2 u1 u2 -> pres [] u1 u2 v1 v2 -> pres N t1 t2 v1 v2.
Proof. intros H1 H2 y Hy. apply H2. left. apply H1. exact Hy. Qed.

Lemma pres_agree W N t1 t2 t1' t2' : agree_on W t1 t2 -> pres N t1 t2 t1' t2' -> agree_on (W ++ N) t1' t2'.
Proof. intros Ha Hp y Hy. apply Hp. apply in_app_or in Hy. destruct Hy; [left; apply Ha|right]; assumption. Qed.

Lemma pres_agree0 W t1 t2 t1' t2' : agree_on W t1 t2 -> pres [] t1 t2 t1' t2' -> agree_on W t1' t2'.
Proof. intros Ha Hp y Hy. apply Hp. left. apply Ha. exact Hy. Qed.

Lemma frm_true W (t t' : itree) y : frm True W t t' -> ~ In y W -> node_view y t' = node_view y t.
Proof. intros H Hy. destruct (H y Hy) as [E|[E _]]; [exact E|]. exfalso. apply E. exact I. Qed.

(* the rule: outside the write set use the frame on both sides, inside compute *)
Lemma pres_frm N Wr (t1 t2 t1' t2' : itree) :
  frm True Wr t1 t1' -> frm True Wr t2 t2' -> incl N Wr ->
  (forall y, In y Wr -> node_view y t1 = node_view y t2 \/ In y N -> node_view y t1' = node_view y t2') ->
  pres N t1 t2 t1' t2'.
Proof.
  intros F1 F2 Hi He y Hy. destruct (in_dec Nat.eq_dec y Wr) as [Hin|Hni].
  - apply He; assumption.
  - rewrite (frm_true _ _ _ _ F1 Hni), (frm_true _ _ _ _ F2 Hni).
    destruct Hy as [Hy|Hy]; [exact Hy|]. exfalso. apply Hni. apply Hi. exact Hy.
Qed.

Lemma osim_trans N t1 t2 u1 u2 o1 o2 :
  pres N t1 t2 u1 u2 -> (nid t1 = nid t2 -> nid u1 = nid u2) -> osim [] u1 u2 o1 o2 -> osim N t1 t2 o1 o2.
Proof.
  intros Hp Hn (A & B & C & D & E & G & F). unfold osim. repeat (split; [assumption|]).
  split; [intros H; apply G; apply Hn; exact H|]. eapply pres_trans; eauto.
Qed.

(* ---- top nodes with the same fields ---- *)
Lemma view_find x (t1 t2 n1 : itree) :
  node_view x t1 = node_view x t2 -> find x t1 = Some n1 -> exists n2, find x t2 = Some n2 /\ tsim n1 n2.
Proof.
  unfold node_view. intros H Hf. rewrite Hf in H. simpl in H.
  destruct (find x t2) as [n2|] eqn:Hf2; [|discriminate H]. simpl in H. inversion H as [Hv].
  exists n2. split; [reflexivity|]. split; [|exact Hv].
  apply find_nid in Hf. apply find_nid in Hf2. congruence.
Qed.

Lemma view_find_none x (t1 t2 : itree) :
  node_view x t1 = node_view x t2 -> find x t1 = None -> find x t2 = None.
Proof.
  unfold node_view. intros H Hf. rewrite Hf in H. simpl in H. destruct (find x t2); [discriminate H|reflexivity].
Qed.

Lemma tsim_refl (n : itree) : tsim n n. Proof. split; reflexivity. Qed.

Lemma tsim_leaf i nx es (n2 : itree) : tsim (ILeaf i nx es) n2 -> n2 = ILeaf i nx es.
Proof. intros [H1 H2]. destruct n2 as [i2 nx2 es2|i2 cs2]; simpl in *; [|discriminate H2]. inversion H2; subst. reflexivity. Qed.

Lemma tsim_node i cs (n2 : itree) : tsim (INode i cs) n2 -> exists cs2, n2 = INode i cs2 /\ ptrs cs2 = ptrs cs.
Proof.
  intros [H1 H2]. destruct n2 as [i2 nx2 es2|i2 cs2]; simpl in *; [discriminate H2|]. inversion H2 as [Hp]; subst.
  exists cs2. split; [reflexivity|]. symmetry. exact Hp.
Qed.

Lemma ptrs_length (cs : list (K * itree)) : length (ptrs cs) = length cs.
Proof. unfold ptrs. apply map_length. Qed.

Lemma ptrs_fst (cs : list (K * itree)) : map fst (ptrs cs) = map fst cs.
Proof. unfold ptrs. rewrite map_map. reflexivity. Qed.

Lemma ptrs_eq_length (cs1 cs2 : list (K * itree)) : ptrs cs1 = ptrs cs2 -> length cs1 = length cs2.
Proof. intros H. rewrite <- (ptrs_length cs1), <- (ptrs_length cs2), H. reflexivity. Qed.

Lemma ptrs_eq_fst (cs1 cs2 : list (K * itree)) : ptrs cs1 = ptrs cs2 -> map fst cs1 = map fst cs2.
Proof. intros H. rewrite <- (ptrs_fst cs1), <- (ptrs_fst cs2), H. reflexivity. Qed.

Lemma ptrs_nth (cs1 cs2 : list (K * itree)) j k c1 :
  ptrs cs1 = ptrs cs2 -> nth_error cs1 j = Some (k, c1) -> exists c2, nth_error cs2 j = Some (k, c2) /\ nid c2 = nid c1.
Proof.
  intros H Hn. pose proof (nth_ptrs K V cs1 j k c1 Hn) as Hp. rewrite H in Hp.
  unfold ptrs in Hp. rewrite nth_error_map' in Hp. destruct (nth_error cs2 j) as [[k2 c2]|]; [|discriminate Hp].
  simpl in Hp. inversion Hp; subst. exists c2. auto.
Qed.

Lemma ptrs_nth_none (cs1 cs2 : list (K * itree)) j :
  ptrs cs1 = ptrs cs2 -> nth_error cs1 j = None -> nth_error cs2 j = None.
Proof.
  intros H Hn. apply nth_error_None. apply nth_error_None in Hn. apply ptrs_eq_length in H. lia.
Qed.

Lemma ptrs_get_nth (cs1 cs2 : list (K * itree)) j k c1 :
  ptrs cs1 = ptrs cs2 -> get_nth j cs1 = Ok (k, c1) -> exists c2, get_nth j cs2 = Ok (k, c2) /\ nid c2 = nid c1.
Proof.
  intros H Hg. apply get_nth_Ok in Hg. destruct (ptrs_nth _ _ _ _ _ H Hg) as [c2 [A B]].
  exists c2. split; [|exact B]. unfold get_nth. rewrite A. reflexivity.
Qed.

Lemma tsim_icount (n1 n2 : itree) : tsim n1 n2 -> icount n2 = icount n1.
Proof.
  intros H. destruct n1 as [i nx es|i cs].
  - rewrite (tsim_leaf _ _ _ _ H). reflexivity.
  - destruct (tsim_node _ _ _ H) as [cs2 [-> Hp]]. simpl. apply ptrs_eq_length. exact Hp.
Qed.

Lemma tsim_ismallest (n1 n2 : itree) : tsim n1 n2 -> ismallest n2 = ismallest n1.
Proof.
  intros H. destruct n1 as [i nx es|i cs].
  - rewrite (tsim_leaf _ _ _ _ H). reflexivity.
  - destruct (tsim_node _ _ _ H) as [cs2 [-> Hp]]. simpl.
    destruct cs as [|[k c] cs]; destruct cs2 as [|[k2 c2] cs2]; simpl in Hp; try discriminate Hp; [reflexivity|].
    inversion Hp; subst. reflexivity.
Qed.

(* ---- ptrs and the slice idioms ---- *)
Lemma map_set_nth {A B} (f : A -> B) i x (l : list A) : map f (set_nth i x l) = set_nth i (f x) (map f l).
Proof. unfold set_nth. rewrite map_app, firstn_map, skipn_map. reflexivity. Qed.
Lemma map_ins_nth {A B} (f : A -> B) i x (l : list A) : map f (ins_nth i x l) = ins_nth i (f x) (map f l).
Proof. unfold ins_nth. rewrite map_app, firstn_map, skipn_map. reflexivity. Qed.
Lemma map_del_nth {A B} (f : A -> B) i (l : list A) : map f (del_nth i l) = del_nth i (map f l).
Proof. unfold del_nth. rewrite map_app, firstn_map, skipn_map. reflexivity. Qed.

Lemma ptrs_set_nth i k (c : itree) cs : ptrs (set_nth i (k, c) cs) = set_nth i (k, nid c) (ptrs cs).
Proof. unfold ptrs. rewrite map_set_nth. reflexivity. Qed.
Lemma ptrs_ins_nth i k (c : itree) cs : ptrs (ins_nth i (k, c) cs) = ins_nth i (k, nid c) (ptrs cs).
Proof. unfold ptrs. rewrite map_ins_nth. reflexivity. Qed.
Lemma ptrs_del_nth i (cs : list (K * itree)) : ptrs (del_nth i cs) = del_nth i (ptrs cs).
Proof. unfold ptrs. rewrite map_del_nth. reflexivity. Qed.
Lemma ptrs_firstn i (cs : list (K * itree)) : ptrs (firstn i cs) = firstn i (ptrs cs).
Proof. unfold ptrs. rewrite firstn_map. reflexivity. Qed.
Lemma ptrs_skipn i (cs : list (K * itree)) : ptrs (skipn i cs) = skipn i (ptrs cs).
Proof. unfold ptrs. rewrite skipn_map. reflexivity. Qed.

(* ---- isplit ---- *)
Lemma isplit_sim order fr (n1 n2 : itree) : tsim n1 n2 ->
  match isplit order fr n1 with
  | None => isplit order fr n2 = None
  | Some (l1, r1) => exists l2 r2, isplit order fr n2 = Some (l2, r2) /\ tsim l1 l2 /\ tsim r1 r2
  end.
Proof.
  intros H. unfold isplit. rewrite (tsim_icount _ _ H). destruct (icount n1 <? order); [reflexivity|].
  destruct n1 as [i nx es|i cs].
  - rewrite (tsim_leaf _ _ _ _ H). do 2 eexists. split; [reflexivity|]. split; apply tsim_refl.
  - destruct (tsim_node _ _ _ H) as [cs2 [-> Hp]]. do 2 eexists. split; [reflexivity|].
    split; (split; [reflexivity|]); simpl; f_equal; fold (ptrs (firstn (Nat.div2 order) cs));
      fold (ptrs (firstn (Nat.div2 order) cs2));
      fold (ptrs (firstn (Nat.div2 order) (skipn (Nat.div2 order) cs)));
      fold (ptrs (firstn (Nat.div2 order) (skipn (Nat.div2 order) cs2)));
      rewrite ?ptrs_firstn, ?ptrs_skipn, Hp; reflexivity.
Qed.

(* ---- views after an update ---- *)
Lemma view_found x (t n : itree) : find x t = Some n -> node_view x t = Some (view_of n).
Proof. intros H. unfold node_view. rewrite H. reflexivity. Qed.

Lemma upd_view_self x (n n' t t' : itree) :
  NoDup (ids t) -> find x t = Some n -> nid n' = nid n -> upd x (fun _ => Ok n') t = Ok t' ->
  node_view x t' = Some (view_of n').
Proof. intros Hnd Hf Hn Hu. apply view_found. eapply find_upd_same; eauto. Qed.

Lemma view_kid p pi (cs : list (K * itree)) k ch (t : itree) :
  NoDup (ids t) -> find p t = Some (INode pi cs) -> In (k, ch) cs -> node_view (nid ch) t = Some (view_of ch).
Proof. intros Hnd Hf Hin. apply view_found. eapply find_child; eauto. Qed.

Lemma view_root (t : itree) : node_view (nid t) t = Some (view_of t).
Proof. apply view_found. rewrite find_eq, Nat.eqb_refl. reflexivity. Qed.

Lemma tsim_root (t1 t2 : itree) : nid t1 = nid t2 -> node_view (nid t1) t1 = node_view (nid t1) t2 -> tsim t1 t2.
Proof.
  intros Hn H. rewrite view_root in H. rewrite Hn, view_root in H. inversion H. split; assumption.
Qed.

(* a leaf update on both sides *)
Lemma upd_leaf_pres x i nx es nx' es' (t1 t2 t1' : itree) :
  NoDup (ids t1) -> NoDup (ids t2) ->
  find x t1 = Some (ILeaf i nx es) -> find x t2 = Some (ILeaf i nx es) ->
  upd x (fun _ => Ok (ILeaf i nx' es')) t1 = Ok t1' ->
  exists t2', upd x (fun _ => Ok (ILeaf i nx' es')) t2 = Ok t2' /\ pres [] t1 t2 t1' t2' /\
              NoDup (ids t1') /\ NoDup (ids t2') /\ nid t1' = nid t1 /\ nid t2' = nid t2.
Proof.
  intros N1 N2 F1 F2 U1.
  destruct (upd_total K V x (ILeaf i nx' es') t2) as [t2' U2]. exists t2'. split; [exact U2|].
  destruct (upd_leaf_rel K V True [x] x i nx nx' es es' t1 t1' N1 F1 U1) as (_ & A2 & A3 & A4); [simpl; auto|].
  destruct (upd_leaf_rel K V True [x] x i nx nx' es es' t2 t2' N2 F2 U2) as (_ & B2 & B3 & B4); [simpl; auto|].
  split; [|auto].
  apply pres_frm with (Wr := [x]); auto.
  - intros y [].
  - intros y [<-|[]] _.
    rewrite (upd_view_self x _ (ILeaf i nx' es') _ _ N1 F1 eq_refl U1), (upd_view_self x _ (ILeaf i nx' es') _ _ N2 F2 eq_refl U2). reflexivity.
Qed.

(* ---- agreement and child pointers ---- *)
Lemma child_at_agree (t1 t2 : itree) p j c :
  node_view p t1 = node_view p t2 -> child_at t1 p j c -> child_at t2 p j c.
Proof. intros H Hc vcs Hv. apply Hc. rewrite H. exact Hv. Qed.

Lemma child_id_agree (t1 t2 : itree) p j :
  node_view p t1 = node_view p t2 -> forall x, child_id t1 p j = Ok x -> child_id t2 p j = Ok x.
Proof.
  intros H x Hc. unfold child_id in *.
  destruct (find p t1) as [[i nx es|pi cs]|] eqn:Hf; try discriminate Hc.
  destruct (view_find _ _ _ _ H Hf) as [n2 [Hf2 Hs]]. rewrite Hf2.
  destruct (tsim_node _ _ _ Hs) as [cs2 [-> Hp]].
  destruct (get_nth j cs) as [[k c]|] eqn:Hg; [cbn [bind] in Hc|discriminate Hc]. inversion Hc; subst x.
  symmetry in Hp. destruct (ptrs_get_nth _ _ _ _ _ Hp Hg) as [c2 [Hg2 Hn]]. rewrite Hg2. cbn [bind]. rewrite Hn. reflexivity.
Qed.

End RDBase.

Arguments agree_on {K V}. Arguments footprint {K V}. Arguments tsim {K V}. Arguments pres {K V}. Arguments osim {K V}.

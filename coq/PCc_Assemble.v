(* PCc_Assemble.v — (bonus) the pieces put together: [Base order s] (PCc_Proof.v) is an INDUCTIVE invariant of the
   concurrent model: it holds initially and is preserved by every step, hence holds in every reachable state. *)
From Coq Require Import List Permutation Lia Bool PeanoNat.
From GB Require Import ListLemmas TreeLemmas Inv InvProof Conc GI CInv CInv3 CIDef NoDeadlock Lin LinDef Frame LockProof ConcProps
  UpdLemmas FrameRel FrameInv FrameBlocks FrameProof SoloBase
  PCb1_Blocks PCb1_Proof PCb2_Bounds PCb2_View PCb2_Blocks PCb2_Step PCb2_Proof PCb2_Tree PCb2_RightFree
  OCCc_Blocks OCCc_Proof OCCc_Op GIa1_Proof GIa2_Proof
  PCc_Low PCc_Step PCc_Own PCc_Proof.
Import ListNotations.

Section Assemble.
Variables (K V : Type) (ltb : K -> K -> bool).
Hypothesis HS : SWO ltb.
Notation st := (st K V).
Notation thread := (thread K V).
Notation Base := (Base K V ltb).

Lemma del_pc_same (p : pc K V) : GIa2_Proof.is_delete_pc K V p = GIa1_Proof.is_delete_pc K V p.
Proof. destruct p; try reflexivity. Qed.

Theorem CIfull_step : forall order (s s' : st) me acq ev,
  Nat.even order = true -> 4 <= order -> Base order s ->
  cstep ltb order s me = Stepped s' acq ev -> CIfull ltb order s'.
Proof.
  intros order s s' me acq ev Hev H4 HB Hs.
  pose proof HB as ((HCI & Hinv & Hlp & _ & _) & Hsm & Hop & Hrf).
  destruct (step_threads K V ltb order s s' me acq ev Hs) as (th & o & Hme & Htg & Hfree & Hblk & E & Hoth).
  assert (Hnd : NoDup (map fst (ths s))) by (apply (ths_nodup K V s (proj1 (proj2 Hinv)))).
  split; [split; [|split]|].
  - (* GI *)
    destruct (GIa1_Proof.is_delete_pc K V (tpc th)) eqn:Ed.
    + apply (gi_step_delete K V ltb HS order s s' me th acq ev Hev H4 HCI Hinv Hme); [|exact Hs]. rewrite del_pc_same. exact Ed.
    + apply (gi_step_nondelete K V ltb HS order s s' me th acq ev Hev); [lia | exact (proj1 HCI) | exact Hinv | exact Hme | exact Ed | exact Hs].
  - (* lock table *)
    eapply lock_inv2_step; [exact (proj1 (proj2 Hinv)) | exact Hs].
  - (* program counters *)
    assert (Hgm' : forall th', get_thread me (ths s') = Some th' -> pc_ok_b ltb order (tr s') (tpc th') = true).
    { intros th' Hg. eapply (own_pc_ok_step_x K V ltb HS order s s' me acq ev th'); eauto. }
    unfold all_pc_ok_b.
    assert (Eth : exists th', ths s' = set_thread me th' (ths s)) by (rewrite E; unfold commit; cbn [ths]; eauto).
    destruct Eth as [th' Eth]. rewrite Eth. apply forallb_step.
    + cbn [snd]. apply Hgm'. rewrite Eth. eapply get_set_same; eauto.
    + intros [t tht] Hin Hne. cbn [fst snd] in *.
      eapply (other_pc_ok_step_rfi K V ltb HS order s s' me acq ev t tht); eauto. apply in_get_thread; auto.
  - (* occupancy *)
    eapply (occ_step K V ltb order s s' me acq ev); eauto.
Qed.

Theorem Base_step : forall order (s s' : st) me acq ev,
  Nat.even order = true -> 4 <= order -> Base order s ->
  cstep ltb order s me = Stepped s' acq ev -> Base order s'.
Proof.
  intros order s s' me acq ev Hev H4 HB Hs.
  pose proof (CIfull_step order s s' me acq ev Hev H4 HB Hs) as HCI'.
  pose proof HB as ((HCI & Hinv & Hlp & _ & _) & Hsm & Hop & Hrf).
  split; [split; [exact HCI'|split; [|split; [|split]]]|split; [|split]].
  - eapply all_inv_step; eauto.
  - eapply all_left_pos_step; eauto.
  - eapply (pc_ok2_step K V ltb HS); eauto.
  - eapply (pc_ok3_step K V ltb HS); eauto.
  - eapply (small_step K V ltb order s s' me acq ev); eauto.
  - eapply op_step; eauto.
  - eapply (rfi_b_step K V ltb order s s' me acq ev); eauto.
Qed.

Lemma forallb_init (P : tid * thread -> bool) (progs : list (tid * list (cop K V))) :
  (forall t pr, P (t, {| prog := pr; tpc := Idle; results := [] |}) = true) ->
  forallb P (map (fun p => (fst p, {| prog := snd p; tpc := Idle; results := [] |})) progs) = true.
Proof. intros H. apply forallb_forall. intros e He. apply in_map_iff in He. destruct He as [p [<- _]]. apply H. Qed.

Theorem Base_init : forall order progs, NoDup (map fst progs) -> Base order (init_st (K:=K) (V:=V) progs).
Proof.
  intros order progs Hnd.
  split; [split; [split; [split; [|split]|]|split; [|split; [|split]]]|split; [|split]].
  - (* GI *)
    unfold GI, init_st. simpl.
    split; [constructor; [simpl; tauto | constructor]|].
    split; [constructor; [lia | constructor]|].
    split; [exact I|]. split; [exact I|]. split; [split; [lia | exact I]|]. reflexivity.
  - apply lock_inv2_init. exact Hnd.
  - unfold all_pc_ok_b, init_st. cbn [ths tr]. apply forallb_init. reflexivity.
  - unfold occ_ok_b, init_st. cbn [tr iocc_b]. rewrite orb_true_r. reflexivity.
  - apply all_inv_init. exact Hnd.
  - apply all_left_pos_init.
  - apply all_pc_ok2_init.
  - apply all_pc_ok3_init.
  - apply all_small_init.
  - apply all_op_init.
  - apply rfi_b_init.
Qed.

Theorem Base_exec : forall order sched (s : st),
  Nat.even order = true -> 4 <= order -> Base order s -> Base order (fst (exec ltb order s sched)).
Proof.
  intros order sched. induction sched as [|t rest IH]; intros s Hev H4 HB; simpl; [exact HB|].
  destruct (cstep ltb order s t) as [ | | |s1 acq ev| ] eqn:Hs; simpl; try exact HB.
  pose proof (IH s1 Hev H4 (Base_step order s s1 t acq ev Hev H4 HB Hs)) as H.
  destruct (exec ltb order s1 rest) as [s2 h]. simpl in *. exact H.
Qed.

(* every reachable state satisfies the whole invariant *)
Corollary Base_reachable : forall order (progs : list (tid * list (cop K V))) sched,
  Nat.even order = true -> 4 <= order -> NoDup (map fst progs) -> Base order (reach ltb order progs sched).
Proof. intros. unfold reach. apply Base_exec; auto. apply Base_init. assumption. Qed.

Corollary CIall_reachable : forall order (progs : list (tid * list (cop K V))) sched,
  Nat.even order = true -> 4 <= order -> NoDup (map fst progs) -> CIall ltb order (reach ltb order progs sched).
Proof. intros. apply (proj1 (Base_reachable order progs sched H H0 H1)). Qed.

End Assemble.

Print Assumptions Base_step.
Print Assumptions Base_reachable.

(* SearchScanProof.v — on every tree satisfying the invariant, Search is the ideal map's lookup and a
   scan from a key yields exactly the ideal map's entries not below the key, in order. *)
From Coq Require Import List Bool Lia PeanoNat.
From GB Require Import Model Spec Inv ListLemmas SearchProof SpecLaws InvProof.
Import ListNotations.

Section SearchScan.
Variables (K V : Type) (ltb : K -> K -> bool).
Hypothesis HS : SWO ltb.
Notation tree := (tree K V).

Let irr := ltb_irrefl K ltb HS.
Let tr := ltb_trans K ltb HS.
Let ntr := ltb_negtrans K ltb HS.
Let asym := lt_asym K ltb HS.
Let ltle := lt_le_trans K ltb HS.
Let lelt := le_lt_trans K ltb HS.

(* ---- unfolding equations ---- *)
Lemma seps_ok_cons s (c : tree) r :
  seps_ok ltb ((s, c) :: r) =
  (Forall (le ltb s) (allkeys c) /\
   match r with [] => True | (s', _) :: _ => Forall (fun k => lt ltb k s') (allkeys c) end /\
   seps_ok ltb r).
Proof. reflexivity. Qed.

Lemma allkeys_Node_cons s (c : tree) r : allkeys (Node ((s, c) :: r)) = s :: allkeys c ++ allkeys (Node r).
Proof. reflexivity. Qed.

Lemma entries_Node_cons s (c : tree) r : entries (Node ((s, c) :: r)) = entries c ++ entries (Node r).
Proof. reflexivity. Qed.

Lemma entries_Node_app (a b : list (K * tree)) : entries (Node (a ++ b)) = entries (Node a) ++ entries (Node b).
Proof. cbn [entries]. apply flat_map_app. Qed.

Lemma entries_Node_split pre s (c : tree) post :
  entries (Node (pre ++ (s, c) :: post)) = entries (Node pre) ++ entries c ++ entries (Node post).
Proof. rewrite entries_Node_app, entries_Node_cons. reflexivity. Qed.

(* ---- keys of the abstraction are keys of the tree ---- *)
Lemma entries_keys (t : tree) : incl (map fst (entries t)) (allkeys t).
Proof.
  induction t as [es|cs IH] using tree_ind'.
  - apply incl_refl.
  - induction cs as [|[s c] r IHr].
    + apply incl_refl.
    + inversion IH as [|x l H1 H2]; subst. simpl in H1. specialize (IHr H2).
      rewrite entries_Node_cons, allkeys_Node_cons, map_app.
      intros x Hx. right. apply in_or_app. apply in_app_or in Hx as [Hx|Hx]; [left; apply H1; exact Hx|right; apply IHr; exact Hx].
Qed.

Lemma entries_Forall (P : K -> Prop) (t : tree) :
  Forall P (allkeys t) -> Forall (fun e => P (fst e)) (entries t).
Proof.
  intros H. rewrite Forall_forall in *. intros e He. apply H. apply entries_keys. apply in_map; exact He.
Qed.

(* ---- decomposition over  pre ++ x :: post ---- *)
Lemma seps_ok_suffix (pre l : list (K * tree)) : seps_ok ltb (pre ++ l) -> seps_ok ltb l.
Proof.
  induction pre as [|[s c] pre IH]; intros H; [exact H|].
  rewrite <- app_comm_cons, seps_ok_cons in H. apply IH. tauto.
Qed.

Lemma asc_suffix {A} (pre l : list (K * A)) : asc ltb (map fst (pre ++ l)) -> asc ltb (map fst l).
Proof. rewrite map_app. intros H. apply (asc_app_iff K ltb HS) in H. tauto. Qed.

Lemma all_kids_elt (P : tree -> Prop) pre s c post : all_kids P (pre ++ (s, c) :: post) -> P c.
Proof.
  intros H. apply all_kids_Forall in H. rewrite Forall_forall in H.
  apply (H (s, c)). apply in_elt.
Qed.

(* every key at or below a node is at least the node's first separator *)
Lemma seps_lower r : forall s (c : tree),
  asc ltb (map fst ((s, c) :: r)) -> seps_ok ltb ((s, c) :: r) ->
  Forall (le ltb s) (allkeys (Node ((s, c) :: r))).
Proof.
  induction r as [|[s' c'] r' IH]; intros s c Ha Hs; rewrite allkeys_Node_cons; rewrite seps_ok_cons in Hs;
    destruct Hs as [H1 [H2 H3]].
  - constructor; [apply irr|]. apply Forall_app. split; [exact H1|constructor].
  - constructor; [apply irr|]. apply Forall_app. split; [exact H1|].
    cbn [map fst] in Ha. destruct Ha as [Hss' Ha].
    specialize (IH s' c' Ha H3). eapply Forall_impl; [|exact IH].
    intros x Hx. unfold le, lt in *. destruct (ltb x s) eqn:E; [|reflexivity].
    rewrite (tr _ _ _ E Hss') in Hx. discriminate.
Qed.

(* every key at or below the children to the left of a separator is below that separator *)
Lemma seps_upper pre : forall s (c : tree) post,
  asc ltb (map fst (pre ++ (s, c) :: post)) -> seps_ok ltb (pre ++ (s, c) :: post) ->
  Forall (fun x => ltb x s = true) (allkeys (Node pre)).
Proof.
  induction pre as [|[s0 c0] pre' IH]; intros s c post Ha Hs; [constructor|].
  rewrite <- app_comm_cons in Ha, Hs. rewrite seps_ok_cons in Hs. destruct Hs as [H1 [H2 H3]].
  rewrite allkeys_Node_cons.
  destruct pre' as [|[s1 c1] pre''].
  - cbn [app map fst] in Ha, H2. destruct Ha as [Hlt _].
    constructor; [exact Hlt|]. apply Forall_app. split; [exact H2|constructor].
  - rewrite <- app_comm_cons in Ha, H2, H3. cbn [map fst] in Ha. destruct Ha as [Hlt Ha].
    specialize (IH s c post Ha H3). pose proof IH as IH'.
    rewrite allkeys_Node_cons in IH'. inversion IH' as [|x l Hs1 _]; subst.
    constructor; [eapply tr; eauto|]. apply Forall_app. split; [|exact IH].
    eapply Forall_impl; [|exact H2]. intros x Hx. unfold lt in Hx. eapply tr; eauto.
Qed.

(* what the descent step knows about the subtrees it does not enter *)
Lemma node_sides k pre s (c : tree) post :
  asc ltb (map fst (pre ++ (s, c) :: post)) -> seps_ok ltb (pre ++ (s, c) :: post) ->
  Forall (fun e => ltb k (fst e) = true) post ->
  (0 < length pre -> ltb k s = false) ->
  Forall (fun e => ltb (fst e) k = true) (entries (Node pre)) /\
  Forall (fun e => ltb k (fst e) = true) (entries (Node post)).
Proof.
  intros Ha Hs Hpost Hpre. split.
  - destruct pre as [|p pre']; [constructor|].
    assert (Hks : ltb k s = false) by (apply Hpre; simpl; lia).
    apply (entries_Forall (fun x => ltb x k = true)).
    eapply Forall_impl; [|exact (seps_upper _ s c post Ha Hs)].
    intros x Hx. simpl in Hx. eapply ltle; eauto.
  - destruct post as [|[s' c'] post']; [constructor|].
    inversion Hpost as [|x l Hks' _]; subst. simpl in Hks'.
    replace (pre ++ (s, c) :: (s', c') :: post') with ((pre ++ [(s, c)]) ++ (s', c') :: post') in Ha, Hs
      by (rewrite <- app_assoc; reflexivity).
    apply asc_suffix in Ha. apply seps_ok_suffix in Hs.
    apply (entries_Forall (fun x => ltb k x = true)).
    eapply Forall_impl; [|exact (seps_lower _ s' c' Ha Hs)].
    intros x Hx. unfold le in Hx. eapply ltle; eauto.
Qed.

Lemma get_nth_elt {A} (pre : list A) x post : get_nth (length pre) (pre ++ x :: post) = Ok x.
Proof. unfold get_nth. rewrite nth_error_app2 by lia. rewrite Nat.sub_diag. reflexivity. Qed.

Lemma nth_error_elt {A} (pre : list A) x post : nth_error (pre ++ x :: post) (length pre) = Some x.
Proof. rewrite nth_error_app2 by lia. rewrite Nat.sub_diag. reflexivity. Qed.

Lemma skipn_elt {A} (pre : list A) x post : skipn (length pre) (pre ++ x :: post) = x :: post.
Proof. rewrite skipn_app, Nat.sub_diag, skipn_all. reflexivity. Qed.

Lemma skipn_S_elt {A} (pre : list A) x post : skipn (S (length pre)) (pre ++ x :: post) = post.
Proof.
  rewrite skipn_app. rewrite skipn_all2 by lia.
  replace (S (length pre) - length pre) with 1 by lia. reflexivity.
Qed.

(* ---- entries are ascending ---- *)
Theorem entries_asc : forall (t : tree), ordered ltb t -> asc ltb (map fst (entries t)).
Proof.
  induction t as [es|cs IH] using tree_ind'; intros Ho; [exact Ho|].
  destruct Ho as [Ha [Hs Hk]].
  induction cs as [|[s c] r IHr]; [exact I|].
  inversion IH as [|x l H1 H2]; subst. simpl in H1.
  rewrite all_kids_cons in Hk. destruct Hk as [Hc Hk].
  rewrite entries_Node_cons, map_app. apply (asc_app_iff K ltb HS).
  assert (Ha' : asc ltb (map fst r)) by (eapply asc_cons_inv; exact Ha).
  assert (Hs' : seps_ok ltb r) by (rewrite seps_ok_cons in Hs; tauto).
  split; [apply H1; exact Hc|]. split; [apply IHr; assumption|].
  destruct r as [|[s' c'] r'].
  - apply Forall_forall. intros a _. constructor.
  - rewrite seps_ok_cons in Hs. destruct Hs as [_ [Hup _]].
    pose proof (seps_lower r' s' c' Ha' Hs') as Hlow.
    apply Forall_forall. intros a Hin. apply entries_keys in Hin.
    rewrite Forall_forall in Hup. specialize (Hup a Hin). unfold lt in Hup.
    apply Forall_forall. intros b Hb. apply entries_keys in Hb.
    rewrite Forall_forall in Hlow. specialize (Hlow b Hb). unfold le in Hlow.
    eapply ltle; eauto.
Qed.

(* ---- Search ---- *)
Lemma search_loop_correct k : forall fuel d (t : tree),
  bal d t -> ordered ltb t -> d < fuel ->
  search_loop ltb fuel k t = Ok (lookup ltb k (entries t)).
Proof.
  induction fuel as [|f IH]; intros d t Hb Ho Hlt; [lia|].
  destruct t as [es|cs].
  - destruct es as [|e es']; [reflexivity|].
    cbn [search_loop]. change (entries (Leaf (e :: es'))) with (e :: es').
    assert (Ha : asc ltb (map fst (e :: es'))) by exact Ho.
    destruct (search_ge_split K ltb HS k (e :: es') Ha ltac:(discriminate))
      as (index & pre & k0 & v & post & Hs & Hsplit & Hlen & Hpre & Hk0).
    rewrite Hs. cbn [bind]. rewrite Hsplit. subst index. rewrite get_nth_elt. cbn [bind].
    rewrite (lookup_skip K V ltb HS) by exact Hpre. cbn [lookup]. unfold eqvb. f_equal.
    destruct Hk0 as [Hk0|[-> Hk0]].
    + rewrite Hk0. destruct (ltb k k0); reflexivity.
    + rewrite Hk0, (asym _ _ Hk0). reflexivity.
  - destruct d as [|d']; [contradiction|].
    destruct Hb as [Hne Hb]. destruct Ho as [Ha [Hs Hk]].
    destruct (search_le_split K ltb HS k cs Ha Hne)
      as (index & pre & s & c & post & Hsr & Hsplit & Hlen & Hpre & Hpost & Hidx).
    cbn [search_loop]. rewrite Hsr. cbn [bind]. subst cs index. rewrite get_nth_elt. cbn [bind].
    rewrite (IH d' c); [|eapply all_kids_elt; exact Hb|eapply (all_kids_elt (ordered ltb)); exact Hk|lia].
    f_equal. destruct (node_sides k pre s c post Ha Hs Hpost Hidx) as [Hl Hr].
    rewrite entries_Node_split, (lookup_skip K V ltb HS) by exact Hl.
    symmetry. apply lookup_app_above. exact Hr.
Qed.

Theorem search_correct : forall order k (t : tree),
  Inv ltb order t -> search ltb k t = Ok (lookup ltb k (entries t)).
Proof.
  intros order k t [Ho [Hb _]]. unfold search. apply (search_loop_correct k _ (height t)); auto.
Qed.

(* ---- Scan ---- *)
Lemma leaf_scan_correct k (es : list (K * V)) :
  asc ltb (map fst es) ->
  exists i, leaf_scan_pos ltb k es = Ok i /\ skipn i es = from ltb k es.
Proof.
  intros Ha. destruct es as [|e es'].
  - exists 0. split; reflexivity.
  - destruct (search_ge_split K ltb HS k (e :: es') Ha ltac:(discriminate))
      as (index & pre & k0 & v & post & Hs & Hsplit & Hlen & Hpre & Hk0).
    unfold leaf_scan_pos. rewrite Hs. cbn [bind]. rewrite Hsplit. subst index.
    rewrite nth_error_elt. rewrite from_skip by exact Hpre. cbn [from].
    destruct Hk0 as [Hk0|[-> Hk0]]; rewrite Hk0.
    + eexists. split; [reflexivity|]. apply skipn_elt.
    + eexists. split; [reflexivity|]. apply skipn_S_elt.
Qed.

Lemma scan_loop_correct k : forall fuel d (t : tree),
  bal d t -> ordered ltb t -> d < fuel ->
  scan_loop ltb fuel k t = Ok (from ltb k (entries t)).
Proof.
  induction fuel as [|f IH]; intros d t Hb Ho Hlt; [lia|].
  destruct t as [es|cs].
  - cbn [scan_loop]. destruct (leaf_scan_correct k es Ho) as [i [Hi Hsk]].
    rewrite Hi. cbn [bind]. rewrite Hsk. reflexivity.
  - destruct d as [|d']; [contradiction|].
    destruct Hb as [Hne Hb]. destruct Ho as [Ha [Hs Hk]].
    destruct (search_le_split K ltb HS k cs Ha Hne)
      as (index & pre & s & c & post & Hsr & Hsplit & Hlen & Hpre & Hpost & Hidx).
    cbn [scan_loop]. rewrite Hsr. cbn [bind]. subst cs index. rewrite get_nth_elt. cbn [bind].
    rewrite (IH d' c); [|eapply all_kids_elt; exact Hb|eapply (all_kids_elt (ordered ltb)); exact Hk|lia].
    cbn [bind]. f_equal. destruct (node_sides k pre s c post Ha Hs Hpost Hidx) as [Hl Hr].
    rewrite skipn_S_elt. change (flat_map (fun c0 => entries (snd c0)) post) with (entries (Node post)).
    rewrite entries_Node_split, from_skip by exact Hl.
    symmetry. apply (from_app_above K V ltb HS). exact Hr.
Qed.

Theorem scan_correct : forall order k (t : tree),
  Inv ltb order t -> scan ltb k t = Ok (from ltb k (entries t)).
Proof.
  intros order k t [Ho [Hb _]]. unfold scan. apply (scan_loop_correct k _ (height t)); auto.
Qed.

End SearchScan.

Print Assumptions search_correct.
Print Assumptions scan_correct.
Print Assumptions entries_asc.

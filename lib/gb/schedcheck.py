"""Scheduled correspondence: the same programs under the same schedules on the Go trees (cooperative scheduler
over the verifMutex shim) and on the extracted concurrent Coq model; projections; monitors; replay."""
import os, re, collections, itertools
from . import common, gensched, seqcheck

CONCDRIVER = os.path.join(common.OCAML, "concdriver")


CI_STATS = dict(steps=0, gi_failures=0, pc_failures=0, lin_failures=0, linearization_points=0, first=None)


def run_cases(vh, cases, workdir, tag="sched", ci=False):
    cp = os.path.join(workdir, tag + ".cases")
    gensched.write_cases(cases, cp)
    go_obs = os.path.join(workdir, tag + ".go.obs")
    mo_obs = os.path.join(workdir, tag + ".model.obs")
    r = common.run(["timeout", "1800", vh, "sched", cp, go_obs])
    if r.returncode != 0:
        raise RuntimeError("go harness (sched) failed: rc=%d %s ... %s" % (r.returncode, (r.stdout + r.stderr)[:1500], (r.stdout + r.stderr)[-1500:]))
    r = common.run(["timeout", "3600", CONCDRIVER, cp, go_obs, mo_obs] + (["gi"] if ci else []))
    if r.returncode != 0:
        raise RuntimeError("model driver (sched) failed: " + (r.stdout + r.stderr)[-2000:])
    m = re.search(r"model_ci_steps (\d+) model_gi_failures (\d+) model_pc_failures (\d+) lin_failures (\d+) lps (\d+)", r.stdout)
    if m:
        CI_STATS["lin_failures"] += int(m.group(4))
        CI_STATS["linearization_points"] += int(m.group(5))
        CI_STATS["steps"] += int(m.group(1))
        CI_STATS["gi_failures"] += int(m.group(2))
        CI_STATS["pc_failures"] += int(m.group(3))
        bad = re.search(r"(PCBAD|LINBAD).*", r.stdout)
        if bad and not CI_STATS["first"]:
            CI_STATS["first"] = bad.group(0)[:600]
    return parse_runs(go_obs), parse_runs(mo_obs)


STEP = re.compile(r"^STEP (\d+) acq=(\S+) ev=(\S+) en=(\S*)(?: \| (.*))?$")


def split_state(state):
    """'N@0[..] chain=ok T=0 pend: w1=- w2=r.0' -> dict(tree (no holders), holders string, chain, T, pend)"""
    m = re.match(r"^(.*?) chain=(\S+) T=(-?\d+) pend:(.*)$", state)
    if not m:
        return dict(tree=state, holders="?", chain="?", T="?", pend="?", raw=state)
    t, chain, T, pend = m.groups()
    holders = ",".join(re.findall(r"[NL]@(-?\d+)", t))
    tree = re.sub(r"([NL])@-?\d+", r"\1", t)
    return dict(tree=tree, holders=holders, chain=chain, T=T, pend=pend.strip(), raw=state, htree=t)


def parse_runs(path):
    runs = collections.OrderedDict()
    cur = None
    with open(path) as f:
        for line in f:
            line = line.rstrip("\n")
            if line.startswith("RUN "):
                _, cid, k = line.split(" ")
                cur = dict(case=cid, k=int(k), steps=[], start=None, end=None, held=None, deadlock=None, truncated=False, res={}, odd=[])
                runs[(cid, int(k))] = cur
            elif cur is None:
                continue
            elif line.startswith("START "):
                cur["start"] = line[6:]
            elif line.startswith("STEP "):
                m = STEP.match(line)
                if m:
                    w, acq, ev, en, state = m.groups()
                    cur["steps"].append(dict(w=int(w), acq=acq, ev=[] if ev == "-" else ev.split(","), en=en, state=state, raw=line))
                else:
                    cur["steps"].append(dict(w=-1, acq="?", ev=[], en="?", state=None, raw=line))
                    cur["odd"].append(line)
            elif line.startswith("DEADLOCK"):
                cur["deadlock"] = line
            elif line.startswith("TRUNCATED"):
                cur["truncated"] = True
            elif line.startswith("END "):
                m = re.match(r"^END (.*) held=(-?\d+)$", line)
                cur["end"], cur["held"] = (m.group(1), int(m.group(2))) if m else (line, None)
            elif line.startswith("RES "):
                p = line.split(" ", 2)
                cur["res"][int(p[1])] = p[2] if len(p) > 2 else ""
            elif line.startswith("ENUM-TRUNCATED"):
                cur["enum_truncated"] = True
            else:
                cur["odd"].append(line)
    return runs


# ---------------- projections ----------------
def step_features(pid, st):
    s = split_state(st["state"]) if st.get("state") else None
    if pid == "C03":
        return [e for e in st["ev"] if e.startswith(("ret:ok", "ret:found", "ret:arg", "inv:", "panic:"))]
    if pid == "C04":
        return [e for e in st["ev"] if e.startswith(("pair:", "end", "ret:pairs"))]
    if pid == "C05":
        return [e for e in st["ev"] if e.startswith("ret:arg")]
    if pid == "C06":
        return (st["en"], st["raw"] if st["w"] < 0 else "")
    if pid == "C08":
        return (st["raw"] if st["w"] < 0 else "")
    if pid == "C09":
        return (s["holders"], s["T"]) if s else ()
    if pid == "C10":
        return (st["acq"], s["holders"], s["T"], s["pend"]) if s else (st["acq"],)
    return st["raw"]


def first_mismatch(pid, go, mo):
    """go, mo: one run each."""
    if mo is None:
        return dict(why="model produced no such run")
    if go["odd"] or mo["odd"]:
        return dict(why="unexpected line", go=go["odd"][:2], model=mo["odd"][:2])
    for i in range(max(len(go["steps"]), len(mo["steps"]))):
        if i >= len(go["steps"]) or i >= len(mo["steps"]):
            return dict(step=i, why="one side has fewer steps", go=go["steps"][i]["raw"][:600] if i < len(go["steps"]) else None,
                        model=mo["steps"][i]["raw"][:600] if i < len(mo["steps"]) else None)
        if step_features(pid, go["steps"][i]) != step_features(pid, mo["steps"][i]):
            return dict(step=i, why="projection of %s differs at this step" % pid, go=go["steps"][i]["raw"][:800], model=mo["steps"][i]["raw"][:800])
    if pid == "C06" and (go["deadlock"] is None) != (mo["deadlock"] is None):
        return dict(why="deadlock verdict differs", go=go["deadlock"], model=mo["deadlock"])
    if pid in ("C03", "C05", "C08", "C04") and go["end"] is not None and mo["end"] is not None:
        ge, me = split_state(go["end"]), split_state(mo["end"])
        if (ge["tree"], ge["chain"]) != (me["tree"], me["chain"]):
            return dict(why="final structure differs", go=go["end"][:800], model=mo["end"][:800])
    if pid in ("C03", "C04", "C05") and go["res"] != mo["res"]:
        return dict(why="results differ", go=go["res"], model=mo["res"])
    if pid == "C09" and go["held"] != mo["held"]:
        return dict(why="locks held at the end differ", go=go["held"], model=mo["held"])
    return None


# ---------------- monitors ----------------
def executed_schedule(run):
    return [s["w"] for s in run["steps"]]


def initial_map(case):
    m = {}
    for o in case["init"]:
        f = o.split()
        if not f:
            continue
        c = seqcheck.keycls(f[1])
        if f[0] == "I":
            if c in m:
                m[c] = (m[c][0], f[2])
            else:
                m[c] = (f[1], f[2])
        elif f[0] == "U":
            d = int(f[2])
            if c in m:
                old = m[c][1]
                m[c] = (m[c][0], str(int(old) + d) if old != "nil" else str(d))
            else:
                m[c] = (f[1], str(d))
        elif f[0] == "D":
            m.pop(c, None)
    return m


def build_history(case, run, with_scans):
    """list of ops: dict(t, inv, ret (None if pending), kind, key (string), arg, result)"""
    ops = []
    open_call = {}
    scan_state = {}       # thread -> dict(start key cls, prev, waiting_since)
    last_pair_step = {}
    for i, st in enumerate(run["steps"]):
        w = st["w"]
        if w in scan_state and scan_state[w].get("pending_inv") is None and scan_state[w]["active"] and not any(e.startswith("inv:") for e in st["ev"]):
            scan_state[w]["pending_inv"] = i
        for e in st["ev"]:
            if e.startswith("inv:"):
                f = e[4:].split("_")
                if f[0] == "C":
                    scan_state[w] = dict(active=int(f[2]) > 0, start=seqcheck.keycls(f[1]), prev=None, pending_inv=i, first=True)
                    open_call[w] = None
                else:
                    op = dict(t=w, inv=i, ret=None, kind=f[0], key=f[1], arg=f[2] if len(f) > 2 else None, result=None)
                    ops.append(op)
                    open_call[w] = op
            elif e.startswith("ret:"):
                if open_call.get(w) is not None:
                    open_call[w]["ret"] = i
                    open_call[w]["result"] = e[4:]
                    open_call[w] = None
                scan_state.pop(w, None)
            elif e.startswith("pair:") or e == "end":
                ss = scan_state.get(w)
                if ss and with_scans:
                    res = e[5:] if e.startswith("pair:") else "END"
                    ops.append(dict(t=w, inv=ss["pending_inv"], ret=i, kind="Q", start=ss["start"], prev=ss["prev"], result=res))
                if ss:
                    if e.startswith("pair:"):
                        ss["prev"] = seqcheck.keycls(e[5:].split("=")[0])
                    ss["pending_inv"] = None
    return ops


def apply_op(m, op):
    """returns (new map, expected result string)"""
    k = op["kind"]
    if k == "Q":
        lo = op["start"] if op["prev"] is None else None
        cand = [c for c in m if (c >= op["start"] if op["prev"] is None else c > op["prev"])]
        if not cand:
            return m, "END"
        c = min(cand)
        return m, "%s=%s" % (m[c][0], m[c][1])
    c = seqcheck.keycls(op["key"])
    if k == "S":
        return m, "found=" + (m[c][1] if c in m else "none")
    m2 = dict(m)
    if k == "I":
        m2[c] = (m[c][0] if c in m else op["key"], op["arg"])
        return m2, "ok"
    if k == "U":
        d = int(op["arg"])
        if c in m:
            old = m[c][1]
            m2[c] = (m[c][0], str(int(old) + d) if old != "nil" else str(d))
            return m2, "arg=%s/calls=1" % old
        m2[c] = (op["key"], str(d))
        return m2, "arg=none/calls=1"
    if k == "D":
        m2.pop(c, None)
        return m2, "ok"
    raise ValueError(k)


def linearizable(ops, m0, final=None, limit=200000):
    """Wing-Gong search. final: expected final map items (sorted tuple) when every call completed, else None.
    Returns (True, witness order) / (False, None) / (None, None) if the budget is exhausted."""
    n = len(ops)
    seen = set()
    budget = [limit]

    def key(m):
        return tuple(sorted(m.items()))

    def rec(done, m, order):
        if budget[0] <= 0:
            return None
        budget[0] -= 1
        if all((i in done) or ops[i]["ret"] is None for i in range(n)):
            if final is None or key(m) == final:
                return order
            # pending ops may still take effect
        sig = (frozenset(done), key(m))
        if sig in seen:
            return False
        seen.add(sig)
        undone = [i for i in range(n) if i not in done]
        min_ret = min([ops[i]["ret"] for i in undone if ops[i]["ret"] is not None], default=None)
        for i in undone:
            if min_ret is not None and ops[i]["inv"] > min_ret:
                continue
            m2, exp = apply_op(m, ops[i])
            if ops[i]["ret"] is not None and exp != ops[i]["result"]:
                continue
            r = rec(done | {i}, m2, order + [i])
            if r is None:
                return None
            if r is not False:
                return r
        return False
    r = rec(frozenset(), dict(m0), [])
    if r is None:
        return None, None
    if r is False:
        return False, None
    return True, r


def held_positions(htree):
    """from 'N@1[1.0:L@2[...] ...]' -> dict thread -> list of (path, kind)"""
    res = collections.defaultdict(list)
    pos = [0]
    s = htree

    def node(path):
        kind = s[pos[0]]
        j = s.index("[", pos[0])
        h = int(s[pos[0] + 2:j])
        if h:
            res[h].append((path, kind))
        pos[0] = j + 1
        idx = 0
        while s[pos[0]] != "]":
            if s[pos[0]] == " ":
                pos[0] += 1
                continue
            j = pos[0]
            while s[j] not in ":=":
                j += 1
            sep = s[j]
            pos[0] = j + 1
            if sep == ":":
                node(path + (idx,))
                idx += 1
            else:
                j = pos[0]
                while s[j] not in " ]":
                    j += 1
                pos[0] = j
        pos[0] += 1
    node(())
    return res


def monitor_run(pid, case, run):
    """The property's own statement on one Go run. Returns list of violation dicts."""
    viol = []
    if run["odd"]:
        viol.append(dict(what="harness reported: %s" % run["odd"][0][:200]))
        return viol
    for i, st in enumerate(run["steps"]):
        for e in st["ev"]:
            if e.startswith("panic:") and pid in ("C03", "C04", "C05", "C06", "C09"):
                if not (case["order"] == 2 and e in ("panic:nosiblings", "panic:index")):
                    viol.append(dict(step=i, what="operation panicked: " + e))
    if viol:
        return viol
    complete = run["deadlock"] is None and not run["truncated"]
    if pid == "C06":
        if run["deadlock"] is not None:
            viol.append(dict(step=len(run["steps"]), what="deadlock: no goroutine can move: " + run["deadlock"].split(" | ")[0]))
    elif pid in ("C03", "C04", "C05"):
        ops = build_history(case, run, with_scans=(pid == "C04"))
        if pid == "C05":
            for o in ops:
                if o["kind"] == "U" and o["result"] is not None and not o["result"].endswith("/calls=1"):
                    viol.append(dict(what="Update invoked its callback %s" % o["result"]))
        final = None
        if complete and run["end"]:
            try:
                ent = seqcheck.snap_entries(split_state(run["end"])["tree"])
                final = tuple(sorted((seqcheck.keycls(k), (k, v)) for k, v in ent))
            except Exception as e:
                viol.append(dict(what="final tree unreadable: %s" % e))
        if run["deadlock"] is None and len(ops) <= 40:
            ok, order = linearizable(ops, initial_map(case), final)
            if ok is False:
                viol.append(dict(what="history is not linearizable w.r.t. the ideal map%s" % (" with successor queries" if pid == "C04" else ""),
                                 history=[{k: v for k, v in o.items()} for o in ops], final=final))
        if pid == "C04":
            # clauses: strictly increasing >= start
            cur = {}
            for o in ops:
                if o["kind"] == "Q" and o["result"] not in ("END", None):
                    c = seqcheck.keycls(o["result"].split("=")[0])
                    if c < o["start"] or (o["prev"] is not None and c <= o["prev"]):
                        viol.append(dict(what="cursor yielded key %d after %s (start %d)" % (c, o["prev"], o["start"])))
    elif pid == "C08":
        if complete and run["end"]:
            s = split_state(run["end"])
            for e in seqcheck.shape_errors(s["tree"], s["chain"], case["order"]):
                viol.append(dict(what="after the execution drained: " + e))
    elif pid in ("C09", "C10"):
        cur_op = {}
        in_cb = {}
        for i, st in enumerate(run["steps"]):
            w = st["w"]
            for e in st["ev"]:
                if e.startswith("inv:"):
                    cur_op[w] = e[4:].split("_")[0]
            if not st.get("state"):
                continue
            s = split_state(st["state"])
            try:
                held = held_positions(s["htree"])
            except Exception as e:
                viol.append(dict(step=i, what="unreadable state: %s" % e))
                break
            T = int(s["T"]) if s["T"].lstrip("-").isdigit() else 0
            returned = any(e.startswith("ret:") for e in st["ev"])
            if pid == "C09":
                if returned and (held.get(w) or T == w):
                    viol.append(dict(step=i, what="thread %d returned from %s still holding %s%s" % (w, cur_op.get(w), held.get(w), " and the tree mutex" if T == w else "")))
                if any(e.startswith("pair:") for e in st["ev"]):
                    hw = held.get(w, [])
                    if len(hw) != 1 or hw[0][1] != "L" or T == w:
                        viol.append(dict(step=i, what="cursor of thread %d holds %s after a step (expected exactly one leaf)" % (w, hw)))
            else:
                for t2, hs in held.items():
                    op = cur_op.get(t2)
                    if op in ("S", "C", "I", "U"):
                        paths = sorted(p for p, _ in hs)
                        ok = len(paths) <= 1 or (len(paths) == 2 and paths[1][:-1] == paths[0]) or \
                            (len(paths) == 3 and paths[1][:-1] == paths[0] and paths[2][:-1] == paths[0] and paths[2][-1] == paths[1][-1] + 1)
                        if T == t2 and not (len(paths) == 0 or paths[0] == () or (len(paths) <= 2 and paths[0] == (0,))):
                            ok = False
                        if not ok:
                            viol.append(dict(step=i, what="thread %d in %s holds %s%s: more than a parent and child (plus fresh sibling)" % (t2, op, paths, " + tree mutex" if T == t2 else "")))
                # a thread parked in a callback or resting cursor holds exactly one leaf
                if cur_op.get(w) == "U" and not returned and not any(e.startswith("inv:") for e in st["ev"]) and re.search(r"\bw%d=-(?: |$)" % w, s["pend"]):
                    hw = held.get(w, [])
                    if len(hw) != 1 or hw[0][1] != "L" or T == w:
                        viol.append(dict(step=i, what="thread %d runs its Update callback holding %s%s (expected exactly one leaf)" % (w, hw, " + tree mutex" if T == w else "")))
                if any(e.startswith("pair:") for e in st["ev"]):
                    hw = held.get(w, [])
                    if len(hw) != 1 or hw[0][1] != "L":
                        viol.append(dict(step=i, what="resting cursor of thread %d holds %s" % (w, hw)))
            if viol:
                break
        if pid == "C09" and complete and run["held"]:
            viol.append(dict(what="%d lock(s) still held after every call returned" % run["held"]))
    return viol

(* C4b_Blocks.v — which atomic blocks of [cstep] end at a descent pc [SeaWantChild o n c] (needs no invariant): only the
   search descent itself, from [WantRoot o n] (n the root just locked) or from [SeaWantChild o p n] (n the child just
   locked), and it leaves the tree unchanged.  Same case analysis as C4_Blocks.blk_class. *)
From Coq Require Import List Bool Lia PeanoNat.
From GB Require Import Model Conc LockInv SoloBase LINa_Prog C4_Blocks.
Import ListNotations.

Section B.
Variables (K V : Type) (ltb : K -> K -> bool).
Notation itree := (itree K V).
Notation pc := (pc K V).
Notation cop := (cop K V).
Notation st := (st K V).
Notation out := (out K V).
Notation thread := (thread K V).

Definition is_seapc (p : pc) : bool := match p with SeaWantChild _ _ _ => true | _ => false end.

Inductive sea_class (s : st) (th : thread) (r : out) : Prop :=
| SC_no : is_seapc (opc r) = false -> sea_class s th r
| SC_sea o n :
    (tpc th = WantRoot o n \/ exists p, tpc th = SeaWantChild o p n) ->
    (exists c, opc r = SeaWantChild o n c) -> otr r = tr s -> sea_class s th r.

Lemma ins_descend_nosea o n (t : itree) l fr tmx (out : out) :
  ins_descend ltb o n t l fr tmx = Ok out -> is_seapc (opc out) = false.
Proof. intros H. unfold ins_descend, mk in H. crunch H; inversion H; subst; clear H; reflexivity. Qed.

Lemma del_descend_nosea o stk n (t : itree) p : del_descend ltb o stk n t = Ok p -> is_seapc p = false.
Proof. intros H. unfold del_descend in H. crunch H; inversion H; subst; clear H. destruct (0 <? a); reflexivity. Qed.

Lemma unwind_nosea order fuel : forall o stk small right (t : itree) l fr tmx (out : out),
  unwind order fuel o stk small right t l fr tmx = Ok out -> is_seapc (opc out) = false.
Proof.
  induction fuel as [|fuel IH]; intros o stk small right t l fr tmx out H; simpl in H; [discriminate|].
  destruct stk as [|f rest]; [unfold mk in H; inversion H; reflexivity|].
  destruct (negb small); [eapply IH; eauto|].
  destruct (find (fp f) t) as [[?|pi cs]|]; try discriminate H.
  destruct ((fidx f + 1 <? length cs) && match right with None => true | Some _ => false end).
  - unfold mk in H. inversion H. reflexivity.
  - destruct (irebalance order f t) as [[t' small']|]; [cbn [bind] in H|discriminate H]. eapply IH; eauto.
Qed.

Lemma sea_descend_sclass o n (t : itree) l fr tmx (out : out) :
  sea_descend ltb o n t l fr tmx = Ok out ->
  is_seapc (opc out) = false \/ ((exists c, opc out = SeaWantChild o n c) /\ otr out = t).
Proof.
  intros H. unfold sea_descend, mk in H.
  destruct (find n t) as [[j nx es|pi cs]|] eqn:Hf; [| |discriminate H].
  - left. destruct o as [k v|k f|k|k|k cnt]; crunch H; inversion H; subst; clear H; reflexivity.
  - right. crunch H; inversion H; subst; clear H. cbn [opc otr]. split; [eexists; reflexivity|reflexivity].
Qed.

Opaque unwind.

Ltac no_now := apply SC_no; reflexivity.

Theorem blk_sea_class order (s : st) me th tg (r : out) :
  SoloBase.blk ltb order s me th tg = Ok (Some r) -> sea_class s th r.
Proof.
  intros H. unfold SoloBase.blk in H. cbv zeta in H.
  destruct (tpc th) as [ |o|o r0|o lft rgt|o p c index|o p c r0|o leaf mode index|o p c|o stk|o stk|o stk|leaf i n acc|leaf nxt n acc] eqn:Epc.
  - destruct (prog th) eqn:Epr; unfold mk in H; cbn [bind] in H; inversion H. no_now.
  - unfold mk in H. cbn [bind] in H. inversion H. no_now.
  - blk_top H. destruct o as [k v|k f|k|k|k cnt].
    + destruct (isplit order (fresh s) (tr s)) as [[l1 r1]|].
      * crunch HE; try (apply SC_no; eapply ins_descend_nosea; eassumption). unfold mk in HE. inversion HE. no_now.
      * apply SC_no; eapply ins_descend_nosea; eassumption.
    + destruct (isplit order (fresh s) (tr s)) as [[l1 r1]|].
      * crunch HE; try (apply SC_no; eapply ins_descend_nosea; eassumption). unfold mk in HE. inversion HE. no_now.
      * apply SC_no; eapply ins_descend_nosea; eassumption.
    + destruct (tr s) as [i nx es|i cs].
      * unfold mk in HE. crunch HE. inversion HE. no_now.
      * unfold mk in HE. crunch HE. inversion HE. subst. apply SC_no. cbn [opc]. eapply del_descend_nosea; eauto.
    + destruct (sea_descend_sclass _ _ _ _ _ _ _ HE) as [Hp|[Hc Ht]]; [apply SC_no; exact Hp|].
      eapply SC_sea; eauto.
    + destruct (sea_descend_sclass _ _ _ _ _ _ _ HE) as [Hp|[Hc Ht]]; [apply SC_no; exact Hp|].
      eapply SC_sea; eauto.
  - blk_top H. apply SC_no; eapply ins_descend_nosea; eauto.
  - blk_top H. unfold mk in HE.
    crunch HE; try (apply SC_no; eapply ins_descend_nosea; eassumption); inversion HE; subst; no_now.
  - blk_top H. apply SC_no; eapply ins_descend_nosea; eauto.
  - blk_top H. unfold mk in HE. crunch HE; inversion HE; no_now.
  - blk_top H.
    destruct (sea_descend_sclass _ _ _ _ _ _ _ HE) as [Hp|[Hc Ht]]; [apply SC_no; exact Hp|].
    eapply SC_sea; eauto.
  - blk_top H. unfold mk in HE. crunch HE; inversion HE; no_now.
  - blk_top H. unfold mk in HE.
    crunch HE; try (apply SC_no; eapply unwind_nosea; eassumption); inversion HE; subst;
      apply SC_no; cbn [opc]; eapply del_descend_nosea; eauto.
  - blk_top H. crunch HE. apply SC_no; eapply unwind_nosea; eauto.
  - blk_top H. unfold mk in HE. destruct n as [|n'].
    + inversion HE. no_now.
    + destruct (find leaf (tr s)) as [[j nx es|]|] eqn:Hf; try discriminate HE.
      destruct (nth_error es i) as [e|] eqn:En.
      * inversion HE. no_now.
      * destruct nx as [x|]; inversion HE; no_now.
  - blk_top H. unfold mk in HE.
    destruct (find nxt (tr s)) as [[j nx [|e es']|]|] eqn:Hf; try discriminate HE.
    inversion HE. no_now.
Qed.

Transparent unwind.

(* the Close step of a cursor whose step budget is used up *)
Lemma blk_close order (s : st) me th tg (r : out) leaf i acc :
  SoloBase.blk ltb order s me th tg = Ok (Some r) -> tpc th = CurRest leaf i 0 acc ->
  oev r = [EReturn (RPairs (rev acc))].
Proof.
  intros H Hpc. unfold SoloBase.blk in H. cbv zeta in H. rewrite Hpc in H.
  unfold mk in H. cbn [bind] in H. inversion H. reflexivity.
Qed.

End B.

Arguments is_seapc {K V} p.

(* CB_Demo.v — sanity checks of the definitions of CB_Count.v by computation (K = V = nat, order 4):
   [cb_steps] really counts the callback steps of concrete executions, and the hypotheses of the C05 theorems are
   satisfiable (the statements are not vacuous). *)
From Coq Require Import List Bool PeanoNat.
From GB Require Import Conc CB_Blocks CB_Count.
Import ListNotations.

Definition bump (a : option nat) : nat := match a with Some v => S v | None => 7 end.

Definition cbs := cb_steps nat nat Nat.ltb 4.
Definition run (progs : list (tid * list (cop nat nat))) sched := exec Nat.ltb 4 (init_st progs) sched.
Definition prog_len (s : st nat nat) t := match get_thread t (ths s) with Some th => Some (length (prog th), results th) | None => None end.

(* one thread, one Update on the empty tree: invoke, tree mutex, root (parks in the callback), callback step *)
Definition p1 : list (tid * list (cop nat nat)) := [(0, [CUpdate 1 bump; CSearch 1])].

Example solo_before : cbs 0 (init_st p1) [0; 0; 0] = 0 /\ prog_len (fst (run p1 [0; 0; 0])) 0 = Some (2, []).
Proof. vm_compute. split; reflexivity. Qed.
Example solo_after : cbs 0 (init_st p1) [0; 0; 0; 0] = 1 /\ prog_len (fst (run p1 [0; 0; 0; 0])) 0 = Some (1, [RArg nat None]).
Proof. vm_compute. split; reflexivity. Qed.
(* the following Search (which finds f None = 7) adds no callback step *)
Example solo_then_search :
  cbs 0 (init_st p1) [0; 0; 0; 0; 0; 0; 0] = 1 /\
  prog_len (fst (run p1 [0; 0; 0; 0; 0; 0; 0])) 0 = Some (0, [RFound nat (Some 7); RArg nat None]).
Proof. vm_compute. split; reflexivity. Qed.

(* two threads updating the same key; thread 1 invokes its Update while thread 0 is parked inside its callback
   holding the leaf: each callback runs once, the second one sees the value stored by the first *)
Definition p2 : list (tid * list (cop nat nat)) :=
  [(0, [CUpdate 1 bump; CSearch 1]); (1, [CInsert 1 5; CUpdate 1 bump])].
Definition sched2 := [1; 1; 1;  0; 0; 0;  1; 1;  0;  1; 1;  0; 0; 0].

Example duo_all_steps_taken : length (snd (run p2 sched2)) = length sched2.
Proof. vm_compute. reflexivity. Qed.
Example duo_counts : cbs 0 (init_st p2) sched2 = 1 /\ cbs 1 (init_st p2) sched2 = 1.
Proof. vm_compute. split; reflexivity. Qed.
Example duo_results :
  prog_len (fst (run p2 sched2)) 0 = Some (0, [RFound nat (Some 7); RArg nat (Some 5)]) /\
  prog_len (fst (run p2 sched2)) 1 = Some (0, [RArg nat (Some 6); RUnit]).
Proof. vm_compute. split; reflexivity. Qed.
(* in the middle (thread 0 parked in the callback, thread 1 waiting for the leaf): no callback step yet *)
Example duo_parked : cbs 0 (init_st p2) (firstn 8 sched2) = 0 /\ cbs 1 (init_st p2) (firstn 8 sched2) = 0 /\
  pc_of nat nat (fst (run p2 (firstn 8 sched2))) 0 = UpdCallback (CUpdate 1 bump) 0 1 0.
Proof. vm_compute. repeat split; reflexivity. Qed.

(* GIa1_Proof.v — the global structural invariant GI of the concurrent B+tree model is preserved by every step
   of a thread that is not executing Delete.  (Files: GIa1_Ctx.v, GIa1_Local.v, GIa1_Blocks.v, this one.) *)
From Coq Require Import List Bool Lia PeanoNat Permutation Sorted.
From GB Require Import Model Spec Inv ListLemmas SearchProof TreeLemmas Conc GI LockInv LockProof CInv CIDef
  Frame FrameInv FrameBlocks FrameProof EraseLemmas EraseOps SoloBase SoloSearch GIa1_Ctx GIa1_Local GIa1_Blocks.
Import ListNotations.

Section Main.
Variables (K V : Type) (ltb : K -> K -> bool).
Hypothesis HS : SWO ltb.
Notation itree := (itree K V).
Notation st := (st K V).
Notation out := (out K V).
Notation shape := (shape ltb).

Definition is_delete_pc (p : pc K V) : bool :=
  match p with
  | DelWantLeft _ _ | DelWantChild _ _ | DelWantRight _ _ => true
  | WantRoot (CDelete _) _ => true
  | _ => false end.

Lemma get_thread_in me (l : list (tid * thread K V)) th :
  get_thread me l = Some th -> exists e, In e l /\ snd e = th.
Proof.
  unfold get_thread. destruct (List.find (fun e => fst e =? me) l) as [e|] eqn:E; [|discriminate].
  intros H. inversion H; subst. apply find_some in E. exists e. tauto.
Qed.

Lemma pc_ok_me order (s : st) me th :
  all_pc_ok_b ltb order s = true -> get_thread me (ths s) = Some th ->
  pc_ok_b ltb order (tr s) (tpc th) = true.
Proof.
  intros Hall Hg. destruct (get_thread_in me _ th Hg) as (e & Hin & <-).
  unfold all_pc_ok_b in Hall. rewrite forallb_forall in Hall. apply Hall. exact Hin.
Qed.

Lemma shape_GI order (s : st) : ids_ok s -> shape order (tr s) -> GI ltb order s.
Proof.
  intros [H1 H2] [(Ho & [d Hb] & Hc) Hch]. unfold GI. repeat (split; [assumption|]).
  split; [|split; assumption]. rewrite (bal_height K V d _ Hb). exact Hb.
Qed.

Lemma GI_shape order (s : st) : GI ltb order s -> shape order (tr s).
Proof.
  intros (_ & _ & Ho & Hb & Hc & Hch). split; [|exact Hch]. split; [exact Ho|]. split; [eexists; exact Hb|exact Hc].
Qed.

Lemma bind_some_inv {A} (X : res A) (o : A) : (r <- X ;; Ok (Some r)) = Ok (Some o) -> X = Ok o.
Proof. destruct X; simpl; intros H; inversion H; reflexivity. Qed.

Theorem gi_step_nondelete : forall order (s s' : st) me th acq ev,
  Nat.even order = true -> 2 <= order ->
  CI ltb order s -> all_inv K V s ->
  get_thread me (ths s) = Some th -> is_delete_pc (tpc th) = false ->
  cstep ltb order s me = Stepped s' acq ev ->
  GI ltb order s'.
Proof.
  intros order s s' me th acq ev Hev H2 [HGI [Hli Hpcs]] Hall Hget Hnd Hstep.
  pose proof Hall as (Hids & Hli' & Hfi).
  pose proof (ids_ok_step K V ltb order s s' me acq ev Hids Hli' Hfi Hstep) as Hids'.
  apply shape_GI; [exact Hids'|]. clear Hids'.
  pose proof (GI_shape order s HGI) as Hsh.
  pose proof (pc_ok_me order s me th Hpcs Hget) as Hpc.
  destruct Hids as [Hnodup Hlt].
  rewrite cstep_eq, Hget in Hstep.
  destruct (target s (tpc th)) as [tg|] eqn:Htg; [|discriminate].
  destruct (negb (is_free s tg)); [discriminate|].
  destruct (blk ltb order s me th tg) as [[o|]|] eqn:Hb; try discriminate.
  inversion Hstep; subst s' acq ev; clear Hstep. cbn [commit tr].
  unfold blk in Hb. destruct (tpc th) eqn:Epc; cbv beta iota zeta in Hb.
  - (* Idle *)
    destruct (prog th); [discriminate|]. apply bind_some_inv in Hb. unfold mk in Hb. inversion Hb; subst. exact Hsh.
  - (* WantT *)
    apply bind_some_inv in Hb. unfold mk in Hb. inversion Hb; subst. exact Hsh.
  - (* WantRoot *)
    apply bind_some_inv in Hb. cbn [pc_ok_b] in Hpc. apply Nat.eqb_eq in Hpc.
    destruct o0 as [k v|k f|k|k|k n].
    + eapply (root_shape K V ltb HS order (CInsert k v)); eauto.
    + eapply (root_shape K V ltb HS order (CUpdate k f)); eauto.
    + discriminate Hnd.
    + apply (sea_descend_rel K V ltb) in Hb. destruct Hb as (_ & -> & _). exact Hsh.
    + apply (sea_descend_rel K V ltb) in Hb. destruct Hb as (_ & -> & _). exact Hsh.
  - (* InsWantRootRight *)
    apply bind_some_inv in Hb. cbn [pc_ok_b] in Hpc.
    destruct (Conc.find r (tr s)) as [rt|] eqn:Hf; [|discriminate Hpc].
    apply andb_true_iff in Hpc. destruct Hpc as [Hc Hr]. apply Nat.ltb_lt in Hc.
    eapply (ins_descend_range K V ltb HS order o0 r (tr s) rt); eauto.
  - (* InsWantChild *)
    apply bind_some_inv in Hb.
    eapply (ins_child_shape2 K V ltb HS order o0 p c index (tr s)); eauto.
  - (* InsWantSplitRight *)
    apply bind_some_inv in Hb. cbn [pc_ok_b] in Hpc.
    destruct (Conc.find p (tr s)) as [[?|pi cs]|] eqn:Hfp; try discriminate Hpc.
    destruct (Conc.find r (tr s)) as [rt|] eqn:Hf; [|discriminate Hpc].
    apply andb_true_iff in Hpc. destruct Hpc as [Hpc _].
    apply andb_true_iff in Hpc. destruct Hpc as [Hpc _].
    apply andb_true_iff in Hpc. destruct Hpc as [Hc Hr]. apply Nat.ltb_lt in Hc.
    eapply (ins_descend_range K V ltb HS order o0 r (tr s) rt); eauto.
  - (* UpdCallback *)
    apply bind_some_inv in Hb.
    eapply (upd_cb_shape K V ltb HS order o0 leaf mode index (tr s)); eauto.
  - (* SeaWantChild *)
    apply bind_some_inv in Hb.
    apply (sea_descend_rel K V ltb) in Hb. destruct Hb as (_ & -> & _). exact Hsh.
  - discriminate Hnd.
  - discriminate Hnd.
  - discriminate Hnd.
  - (* CurRest *)
    apply bind_some_inv in Hb. unfold mk in Hb. crunch Hb; inversion Hb; subst; exact Hsh.
  - (* CurWantNext *)
    apply bind_some_inv in Hb. unfold mk in Hb. crunch Hb; inversion Hb; subst; exact Hsh.
Qed.

End Main.

(* Summary.  Fully proved, all non-Delete pcs (no restriction needed):
     gi_step_nondelete : even order -> 2 <= order -> CI ltb order s -> all_inv K V s ->
       get_thread me (ths s) = Some th -> is_delete_pc (tpc th) = false ->
       cstep ltb order s me = Stepped s' acq ev -> GI ltb order s'.
   Reusable pieces:
     GIa1_Ctx:    rng, hi_of, sub_ok, tshape, shape, cbounds; frame_down, node_replace, frame_up, shape_ctx (replacement
                  lemma), plug_app, find_plug_ex, find_decompose, wfc_of_plug, wfc_to_plug, bounds_plug_self,
                  in_range_plug, find_in_range.
     GIa1_Local:  leaf_put_ok, leaf_keys_ok, ins_nth_is_put, app_is_put, split_ok (split_facts without occupancy),
                  child_facts, child_nosplit, child_split, root_split_ok.
     GIa1_Blocks: leaf_write_ctx, leaf_put_ctx, leaf_keys_ctx, ins_descend_ctx, ins_descend_range, ins_child_shape (old sep choice), ins_child_shape2 (F6),
                  root_shape, upd_cb_shape.
   No fact was missing from pc_ok_b.  Unused facts: lock_inv2/frame_inv (only through ids_ok_step), the two existsb
   conjuncts of InsWantSplitRight, the mode-1/mode-2 conjuncts of UpdCallback. *)

Print Assumptions gi_step_nondelete.

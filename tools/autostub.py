#!/usr/bin/env python3
"""Used when the model changes (e.g. after fix f4bdcf5): run in a SCRATCH COPY of coq/, never in /verif/coq.
Repeatedly `make -k`; for each file with an error inside a proof, replace that proof by `Admitted` (marker F6-STUB).
Usage: autostub.py DIR   -- produces DIR/STUBS.txt listing file:lemma for every stubbed proof."""
import re, subprocess, sys, os
d = sys.argv[1]
os.chdir(d)
stubs = []
KW = re.compile(r'^\s*(Lemma|Theorem|Corollary|Proposition|Fact|Remark|Example|Instance|Definition|Fixpoint|Let)\s+([A-Za-z0-9_\']+)', re.M)
for rnd in range(200):
    r = subprocess.run("timeout 3000 make -k -j16 2>&1", shell=True, capture_output=True, text=True)
    errs = re.findall(r'File "\./([A-Za-z0-9_]+\.v)", line (\d+), characters', r.stdout)
    if not errs:
        print("round", rnd, "no errors; rc", r.returncode)
        print(r.stdout[-500:])
        break
    seen = set()
    for f, ln in errs:
        if f in seen: continue
        seen.add(f)
        ln = int(ln)
        s = open(f).read()
        lines = s.split('\n')
        off = sum(len(x) + 1 for x in lines[:ln - 1])
        eol = off + len(lines[ln - 1])
        pm = [m.start() for m in re.finditer(r'(?<![A-Za-z0-9_.])Proof\.', s[:eol])]
        p = pm[-1] if pm else -1
        q1 = s.find('Qed.', off); q2 = s.find('Defined.', off)
        q = min(x for x in (q1, q2) if x >= 0) if (q1 >= 0 or q2 >= 0) else -1
        # the previous Qed must be before the Proof we found (else the error is outside a proof)
        prevq = max(s.rfind('Qed.', 0, off), s.rfind('Admitted.', 0, off))
        if p < 0 or q < 0 or prevq > p:
            print("CANNOT STUB", f, ln); print(r.stdout[r.stdout.find(f):][:600]); sys.exit(1)
        names = [m for m in KW.finditer(s, 0, p)]
        name = names[-1].group(2) if names else '?'
        qend = q + (4 if s.startswith('Qed.', q) else 8)
        s2 = s[:p] + 'Proof. Admitted. (* F6-STUB *)' + s[qend:]
        open(f, 'w').write(s2)
        stubs.append("%s:%s" % (f, name))
        print("round", rnd, "stub", f, name, flush=True)
open('STUBS.txt', 'w').write('\n'.join(stubs) + '\n')
print(len(stubs), "stubs")

(* SoloBase.v — running one thread alone: the step function cut into (target, atomic block, commit), the
   invariant of a solo run (lock table invariant + every other thread idle), and freeness of lock targets. *)
From Coq Require Import List Bool Lia PeanoNat Permutation.
From GB Require Import Model Inv Conc GI LockInv LockProof EraseLemmas.
Import ListNotations.

Section SB.
Variables (K V : Type) (ltb : K -> K -> bool).
Notation itree := (itree K V).
Notation st := (st K V).
Notation out := (out K V).
Notation thread := (thread K V).
Notation event := (event K V).
Notation cop := (cop K V).
Notation pc := (pc K V).

Definition returned (ev : list event) : bool :=
  existsb (fun e => match e with EReturn _ => true | _ => false end) ev.

(* run thread t alone until its current call returns *)
Fixpoint run_alone (fuel : nat) (order : nat) (s : st) (t : tid) : option (st * list event) :=
  match fuel with
  | 0 => None
  | S f =>
    match cstep ltb order s t with
    | Stepped s' _ ev =>
      if existsb (fun e => match e with EReturn _ => true | _ => false end) ev then Some (s', ev)
      else match run_alone f order s' t with Some (s'', ev') => Some (s'', ev ++ ev') | None => None end
    | _ => None
    end
  end.

(* ---- cstep, cut into pieces ---- *)
Definition blk (order : nat) (s : st) (me : tid) (th : thread) (tg : option (option id)) : res (option out) :=
  let l0 := match tg with Some (Some x) => (x, me) :: lk s | _ => lk s end in
  let tm0 := match tg with Some None => Some me | _ => tm s end in
  let t := tr s in let fr := fresh s in
    match tpc th with
    | Idle => match prog th with [] => Ok None | o :: _ => r <- mk t l0 fr tm0 (WantT o) [EInvoke o] ;; Ok (Some r) end
    | p => r <- (match p with
    | Idle => Panic PIndex
    | WantT o => mk t l0 fr tm0 (WantRoot o (nid t)) []
    | WantRoot o r =>
      match o with
      | CInsert _ _ | CUpdate _ _ =>
        let key := key_of o in
        match isplit order fr t with
        | None => ins_descend ltb o r t l0 fr None
        | Some (lft, rgt) =>
          ls <- ismallest lft ;; rs <- ismallest rgt ;;
          let ls' := if ltb key ls then key else ls in
          let t' := INode (S fr) [(ls', lft); (rs, rgt)] in
          if ltb key rs then ins_descend ltb o r t' l0 (S (S fr)) None
          else mk t' l0 (S (S fr)) tm0 (InsWantRootRight o r fr) []
        end
      | CSearch _ | CScan _ _ => sea_descend ltb o r t l0 fr None
      | CDelete k =>
        match t with
        | ILeaf i nx es =>
          '(es', _) <- leaf_delete ltb (Nat.div2 order) k es ;;
          mk (ILeaf i nx es') (unlock r l0) fr None Idle [EReturn RUnit]
        | INode _ _ => p <- del_descend ltb o [] r t ;; mk t l0 fr tm0 p []
        end
      end
    | InsWantRootRight o lft rgt => ins_descend ltb o rgt t (unlock lft l0) fr None
    | InsWantChild o p c index =>
      let key := key_of o in
      match Conc.find p t, Conc.find c t with
      | Some (INode pi cs), Some child =>
        '(sep, _) <- get_nth index cs ;;
        sep' <- Ok (if index =? 0 then (if ltb key sep then key else sep) else sep) ;;
        match isplit order fr child with
        | None =>
          t' <- upd p (fun _ => Ok (INode pi (set_nth index (sep', child) cs))) t ;;
          ins_descend ltb o c t' (unlock p l0) fr tm0
        | Some (lft, rgt) =>
          rs <- ismallest rgt ;;
          t' <- upd p (fun _ => Ok (INode pi (ins_nth (index + 1) (rs, rgt) (set_nth index (sep', lft) cs)))) t ;;
          if ltb key rs then ins_descend ltb o c t' (unlock p l0) (S fr) tm0
          else mk t' l0 (S fr) tm0 (InsWantSplitRight o p c fr) []
        end
      | _, _ => Panic PIndex end
    | InsWantSplitRight o p c r => ins_descend ltb o r t (unlock p (unlock c l0)) fr tm0
    | UpdCallback o leaf mode index =>
      match o, Conc.find leaf t with
      | CUpdate k f, Some (ILeaf i nx es) =>
        match mode with
        | 0 => t' <- upd leaf (fun _ => Ok (ILeaf i nx (es ++ [(k, f None)]))) t ;;
               mk t' (unlock leaf l0) fr tm0 Idle [EReturn (RArg K None)]
        | 1 => '(k', v') <- get_nth index es ;;
               t' <- upd leaf (fun _ => Ok (ILeaf i nx (set_nth index (k', f (Some v')) es))) t ;;
               mk t' (unlock leaf l0) fr tm0 Idle [EReturn (RArg K (Some v'))]
        | _ => '(k', _) <- get_nth index es ;;
               t' <- upd leaf (fun _ => Ok (ILeaf i nx (set_nth index (k', f None) es))) t ;;
               mk t' (unlock leaf l0) fr tm0 Idle [EReturn (RArg K None)]
        end
      | _, _ => Panic PIndex end
    | SeaWantChild o p c => sea_descend ltb o c t (unlock p l0) fr tm0
    | DelWantLeft o stk =>
      match stk, tg with
      | f :: rest, Some (Some x) => mk t l0 fr tm0 (DelWantChild o (set_fl f x :: rest)) []
      | _, _ => Panic PIndex end
    | DelWantChild o stk =>
      match stk, tg with
      | f :: rest, Some (Some c) =>
        let stk1 := set_fc f c :: rest in
        match Conc.find c t with
        | Some (ILeaf i nx es) =>
          '(es', small) <- leaf_delete ltb (Nat.div2 order) (key_of o) es ;;
          t' <- upd c (fun _ => Ok (ILeaf i nx es')) t ;;
          unwind order (S (S (length stk))) o stk1 small None t' l0 fr tm0
        | Some (INode _ _) => p <- del_descend ltb o stk1 c t ;; mk t l0 fr tm0 p []
        | None => Panic PIndex end
      | _, _ => Panic PIndex end
    | DelWantRight o stk =>
      match tg with
      | Some (Some x) => unwind order (S (S (length stk))) o stk true (Some x) t l0 fr tm0
      | _ => Panic PIndex end
    | CurRest leaf i n acc =>
      match n with
      | 0 => mk t (unlock leaf l0) fr tm0 Idle [EReturn (RPairs (rev acc))]
      | S n' =>
        match Conc.find leaf t with
        | Some (ILeaf _ nx es) =>
          match nth_error es i with
          | Some e => mk t l0 fr tm0 (CurRest leaf (S i) n' (e :: acc)) [EPair e]
          | None =>
            match nx with
            | None => mk t (unlock leaf l0) fr tm0 Idle [EScanEnd; EReturn (RPairs (rev acc))]
            | Some x => mk t l0 fr tm0 (CurWantNext leaf x n' acc) []
            end
          end
        | _ => Panic PIndex end
      end
    | CurWantNext leaf nxt n acc =>
      match Conc.find nxt t with
      | Some (ILeaf _ _ (e :: _)) => mk t (unlock leaf l0) fr tm0 (CurRest nxt 1 n (e :: acc)) [EPair e]
      | _ => Panic PIndex end
    end) ;; Ok (Some r)
    end.

Definition commit (s : st) (me : tid) (th : thread) (o : out) : st :=
  let th' := if returned (oev o)
             then {| prog := tl (prog th); tpc := opc o;
                     results := flat_map (fun e => match e with EReturn r => [r] | _ => [] end) (oev o) ++ results th |}
             else {| prog := prog th; tpc := opc o; results := results th |} in
  {| tr := otr o; tm := otm o; lk := olk o; fresh := ofresh o; ths := set_thread me th' (ths s) |}.

Lemma cstep_eq order s me :
  cstep ltb order s me =
  match get_thread me (ths s) with None => NoThread | Some th =>
  match target s (tpc th) with Panic p => Crash p | Ok tg =>
  if negb (is_free s tg) then Blocked else
  match blk order s me th tg with
  | Panic p => Crash p
  | Ok None => Finished
  | Ok (Some o) => Stepped (commit s me th o) tg (oev o)
  end end end.
Proof. reflexivity. Qed.

Lemma cstep_run order s me th tg o :
  get_thread me (ths s) = Some th -> target s (tpc th) = Ok tg -> is_free s tg = true ->
  blk order s me th tg = Ok (Some o) ->
  cstep ltb order s me = Stepped (commit s me th o) tg (oev o).
Proof. intros H1 H2 H3 H4. rewrite cstep_eq, H1, H2, H3, H4. reflexivity. Qed.

(* ---- the invariant of a solo run ---- *)
Definition SoloInv (me : tid) (s : st) : Prop :=
  lock_inv2 K V s /\ forall u th, u <> me -> get_thread u (ths s) = Some th -> tpc th = Idle.

Definition me_at (me : tid) (s : st) (p : pc) (pr : list cop) : Prop :=
  exists th, get_thread me (ths s) = Some th /\ tpc th = p /\ prog th = pr.

Lemma holder_some x (l : list (id * tid)) u : holder x l = Some u -> In (x, u) l.
Proof.
  unfold holder. destruct (List.find (fun e => fst e =? x) l) as [[y w]|] eqn:E; [|discriminate].
  intros H. inversion H; subst. apply find_some in E. destruct E as [Hin Hx]. simpl in Hx.
  apply Nat.eqb_eq in Hx. subst. exact Hin.
Qed.

Lemma solo_locked me s th x u :
  SoloInv me s -> get_thread me (ths s) = Some th -> In (x, u) (lk s) -> u = me /\ In x (pc_nodes (tpc th)).
Proof.
  intros [[Hli _] Hidle] Hg Hin. destruct Hli as (_ & _ & Hown & _ & Hth).
  destruct (Nat.eq_dec u me) as [->|Hne].
  - split; [reflexivity|]. destruct (Hth me th Hg) as (_ & Hp & _).
    eapply Permutation_in; [exact Hp|]. apply In_held_by. exact Hin.
  - exfalso. destruct (Hown x u Hin) as [thu Hu]. pose proof (Hidle u thu Hne Hu) as Hpc.
    destruct (Hth u thu Hu) as (_ & Hp & _). rewrite Hpc in Hp. simpl in Hp.
    apply In_held_by in Hin. eapply Permutation_in in Hin; [|exact Hp]. exact Hin.
Qed.

Lemma free_node me s th x :
  SoloInv me s -> get_thread me (ths s) = Some th -> ~ In x (pc_nodes (tpc th)) ->
  is_free s (Some (Some x)) = true.
Proof.
  intros Hs Hg Hn. simpl. destruct (holder x (lk s)) as [u|] eqn:E; [|reflexivity].
  apply holder_some in E. destruct (solo_locked me s th x u Hs Hg E) as [_ Hin]. tauto.
Qed.

Lemma solo_tm me s th :
  SoloInv me s -> get_thread me (ths s) = Some th -> pc_holds_T (tpc th) = false -> tm s = None.
Proof.
  intros [[Hli _] Hidle] Hg Hp. destruct Hli as (_ & _ & _ & Htm & Hth).
  destruct (tm s) as [u|] eqn:E; [|reflexivity]. exfalso.
  destruct (Htm u eq_refl) as [thu Hu]. destruct (Hth u thu Hu) as (_ & _ & Hiff).
  pose proof (proj1 Hiff eq_refl) as HT.
  destruct (Nat.eq_dec u me) as [->|Hne].
  - rewrite Hg in Hu. inversion Hu; subst. congruence.
  - rewrite (Hidle u thu Hne Hu) in HT. discriminate.
Qed.

Lemma free_tm me s th :
  SoloInv me s -> get_thread me (ths s) = Some th -> pc_holds_T (tpc th) = false ->
  is_free s (Some None) = true.
Proof. intros Hs Hg Hp. simpl. rewrite (solo_tm me s th Hs Hg Hp). reflexivity. Qed.

Lemma solo_quiet me s th :
  SoloInv me s -> get_thread me (ths s) = Some th -> tpc th = Idle ->
  lk s = [] /\ tm s = None /\ forall t th', get_thread t (ths s) = Some th' -> tpc th' = Idle.
Proof.
  intros Hs Hg Hp. split; [|split].
  - destruct (lk s) as [|[x u] l] eqn:E; [reflexivity|]. exfalso.
    destruct (solo_locked me s th x u Hs Hg) as [_ Hin]; [rewrite E; now left|].
    rewrite Hp in Hin. exact Hin.
  - eapply solo_tm; eauto. rewrite Hp. reflexivity.
  - intros t th' Ht. destruct (Nat.eq_dec t me) as [->|Hne]; [congruence|]. destruct Hs as [_ Hi]. eauto.
Qed.

Lemma solo_init me (s : st) :
  NoDup (map fst (ths s)) -> lk s = [] -> tm s = None ->
  (forall t th, get_thread t (ths s) = Some th -> tpc th = Idle) -> SoloInv me s.
Proof.
  intros Hnd Hlk Htm Hidle. split; [|intros u th _ Hu; eauto]. split.
  - unfold lock_inv. rewrite Hlk, Htm. simpl. split; [constructor|]. split; [exact Hnd|].
    split; [tauto|]. split; [discriminate|]. intros t th Hg. rewrite (Hidle t th Hg). simpl.
    split; [exact I|]. split; [constructor|]. split; discriminate.
  - intros t th Hg. rewrite (Hidle t th Hg). exact I.
Qed.

(* one step of the solo run *)
Lemma solo_step order me s th tg o :
  SoloInv me s -> get_thread me (ths s) = Some th -> target s (tpc th) = Ok tg -> is_free s tg = true ->
  blk order s me th tg = Ok (Some o) ->
  let s1 := commit s me th o in
  cstep ltb order s me = Stepped s1 tg (oev o) /\ SoloInv me s1 /\ tr s1 = otr o /\ fresh s1 = ofresh o /\
  me_at me s1 (opc o) (if returned (oev o) then tl (prog th) else prog th).
Proof.
  intros Hs Hg Ht Hf Hb s1. pose proof (cstep_run order s me th tg o Hg Ht Hf Hb) as Hc. fold s1 in Hc.
  split; [exact Hc|]. split; [|split; [reflexivity|split; [reflexivity|]]].
  - split; [eapply lock_inv2_step; [exact (proj1 Hs)|exact Hc]|].
    intros u thu Hne Hu. unfold s1, commit in Hu. simpl in Hu. rewrite get_set_other in Hu by exact Hne.
    destruct Hs as [_ Hi]. eauto.
  - unfold me_at, s1, commit. simpl. eexists. split; [eapply get_set_same; exact Hg|].
    destruct (returned (oev o)); simpl; auto.
Qed.

(* ---- completion ---- *)
Definition Completes (order : nat) (me : tid) (s1 : st) (ev1 : list event) (P : st -> Prop) (r : ores K V) : Prop :=
  if returned ev1 then P s1 /\ In (EReturn r) ev1
  else exists fuel s' evs, run_alone fuel order s1 me = Some (s', evs) /\ P s' /\ In (EReturn r) evs.

Definition Runs (order : nat) (me : tid) (s : st) (P : st -> Prop) (r : ores K V) : Prop :=
  exists fuel s' evs, run_alone fuel order s me = Some (s', evs) /\ P s' /\ In (EReturn r) evs.

Lemma completes_step order me s s1 tg ev P r :
  cstep ltb order s me = Stepped s1 tg ev -> Completes order me s1 ev P r -> Runs order me s P r.
Proof.
  intros Hc Hcomp. unfold Completes in Hcomp. unfold returned in Hcomp.
  destruct (existsb _ ev) eqn:E.
  - exists 1, s1, ev. simpl. rewrite Hc, E. tauto.
  - destruct Hcomp as (fuel & s' & evs & Hr & HP & Hin). exists (S fuel), s', (ev ++ evs).
    simpl. rewrite Hc, E, Hr. split; [reflexivity|]. split; [exact HP|]. apply in_or_app. now right.
Qed.

Lemma completes_weaken order me s1 ev (P Q : st -> Prop) r :
  (forall s, P s -> Q s) -> Completes order me s1 ev P r -> Completes order me s1 ev Q r.
Proof.
  intros H. unfold Completes. destruct (returned ev); [intros [HP Hi]; auto|].
  intros (f & s' & evs & Hr & HP & Hi). exists f, s', evs. auto.
Qed.

Lemma runs_weaken order me s (P Q : st -> Prop) r :
  (forall s, P s -> Q s) -> Runs order me s P r -> Runs order me s Q r.
Proof. intros H (f & s' & evs & Hr & HP & Hi). exists f, s', evs. auto. Qed.

Lemma completes_of_runs order me s1 ev P r :
  returned ev = false -> Runs order me s1 P r -> Completes order me s1 ev P r.
Proof. intros E H. unfold Completes. rewrite E. exact H. Qed.

(* the behaviour promised for the outcome of a block: any solo state that looks like it completes *)
Definition OutOK (order : nat) (me : tid) (o : cop) (rest : list cop) (out : out) (P : st -> Prop) (r : ores K V) : Prop :=
  forall s1, SoloInv me s1 -> tr s1 = otr out -> fresh s1 = ofresh out ->
    me_at me s1 (opc out) (if returned (oev out) then rest else o :: rest) ->
    Completes order me s1 (oev out) P r.

(* take a step whose block is [out], then continue by OutOK *)
Lemma solo_step_out order me s th tg o rest out P r :
  SoloInv me s -> get_thread me (ths s) = Some th -> prog th = o :: rest ->
  target s (tpc th) = Ok tg -> is_free s tg = true ->
  blk order s me th tg = Ok (Some out) ->
  OutOK order me o rest out P r -> Runs order me s P r.
Proof.
  intros Hs Hg Hp Ht Hf Hb Hok.
  destruct (solo_step order me s th tg out Hs Hg Ht Hf Hb) as (Hc & Hs1 & Htr & Hfr & Hat).
  eapply completes_step; [exact Hc|]. apply Hok; auto.
  rewrite Hp in Hat. simpl in Hat. exact Hat.
Qed.

End SB.

Arguments returned {K V}. Arguments run_alone {K V}. Arguments blk {K V}. Arguments commit {K V}.
Arguments SoloInv {K V}. Arguments me_at {K V}. Arguments Completes {K V}. Arguments Runs {K V}.
Arguments OutOK {K V}.

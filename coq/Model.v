(* Model.v — executable sequential model of karrick/gobptree (one model for all six key types).
   Definitions only; every proof lives in other files so that the model still runs when a proof breaks.
   The model follows the Go statements of <type>.go after the fix: commits (F1..F5 of DESIGN.md). *)
From GB Require Export Base.

Set Implicit Arguments.

Section Model.
Variables (K V : Type) (ltb : K -> K -> bool).

(* comparable.go: "!a.Less(b) && !b.Less(a)"; native files: == *)
Definition eqvb (a b : K) : bool := negb (ltb a b) && negb (ltb b a).

(* ---- <type>SearchGreaterThanOrEqualTo: the literal goto loop ---- *)
Fixpoint ge_loop (fuel : nat) (key : K) (vs : list K) (lo hi : nat) : res nat :=
  match fuel with
  | 0 => Panic PFuel
  | S f =>
    let m := Nat.div2 (lo + hi) in
    match nth_error vs m with
    | None => Panic PIndex
    | Some v =>
      if ltb key v then (if lo <? m then ge_loop f key vs lo m else Ok lo)
      else if ltb v key then (if m + 1 <? hi then ge_loop f key vs (m + 1) hi else Ok (m + 1))
      else Ok m
    end
  end.

Definition search_ge (key : K) (vs : list K) : res nat :=
  if length vs <=? 1 then Ok 0 else ge_loop (length vs) key vs 0 (length vs - 1).

(* ---- <type>SearchLessThanOrEqualTo ---- *)
Definition search_le (key : K) (vs : list K) : res nat :=
  index <- search_ge key vs ;;
  if index =? length vs then Ok (if 0 <? index then index - 1 else index)
  else match nth_error vs index with
       | None => Panic PIndex
       | Some v => if ltb key v then Ok (if 0 <? index then index - 1 else index) else Ok index
       end.

(* Leaves hold (key, value) pairs, internal nodes (separator, child) pairs: Go's parallel slices
   runts/values and runts/children as one list of pairs. *)
Inductive tree := Leaf (es : list (K * V)) | Node (cs : list (K * tree)).

Definition count (t : tree) : nat := match t with Leaf es => length es | Node cs => length cs end.

Definition smallest (t : tree) : res K :=
  match t with
  | Leaf ((k, _) :: _) => Ok k
  | Node ((k, _) :: _) => Ok k
  | Leaf [] => Panic PLeafEmpty
  | Node [] => Panic PInternalEmpty
  end.

(* maybeSplit: keeps order/2 entries, gives order/2 to the new sibling, and (literally) drops the rest *)
Definition maybe_split (order : nat) (t : tree) : option (tree * tree) :=
  if count t <? order then None else
  let h := Nat.div2 order in
  match t with
  | Leaf es => Some (Leaf (firstn h es), Leaf (firstn h (skipn h es)))
  | Node cs => Some (Node (firstn h cs), Node (firstn h (skipn h cs)))
  end.

(* leaf step of Insert/Update: f receives the current value (None if absent); the second result is
   the argument that was handed to the callback *)
Definition leaf_upsert (key : K) (f : option V -> V) (es : list (K * V)) : res (list (K * V) * option V) :=
  match last (map (fun e => Some (fst e)) es) None with
  | None => Ok (es ++ [(key, f None)], None)
  | Some lastk =>
    if ltb lastk key then Ok (es ++ [(key, f None)], None) else
    index <- search_ge key (map fst es) ;;
    '(k, v) <- get_nth index es ;;
    if eqvb key k then Ok (set_nth index (k, f (Some v)) es, Some v)
    else Ok (ins_nth index (key, f None) es, None)
  end.

(* the descent loop of Insert/Update below a node that is known not to need a split *)
Fixpoint ins_loop (fuel : nat) (order : nat) (key : K) (f : option V -> V) (n : tree) : res (tree * option V) :=
  match fuel with 0 => Panic PFuel | S fuel' =>
  match n with
  | Leaf es => '(es', arg) <- leaf_upsert key f es ;; Ok (Leaf es', arg)
  | Node cs =>
    index <- search_le key (map fst cs) ;;
    '(sep, child) <- get_nth index cs ;;
    sep' <- Ok (if index =? 0 then (if ltb key sep then key else sep) else sep) ;;
    match maybe_split order child with
    | None =>
      '(child', arg) <- ins_loop fuel' order key f child ;;
      Ok (Node (set_nth index (sep', child') cs), arg)
    | Some (l, r) =>
      rs <- smallest r ;;
      if ltb key rs then
        '(l', arg) <- ins_loop fuel' order key f l ;;
        Ok (Node (ins_nth (index + 1) (rs, r) (set_nth index (sep', l') cs)), arg)
      else
        '(r', arg) <- ins_loop fuel' order key f r ;;
        Ok (Node (ins_nth (index + 1) (rs, r') (set_nth index (sep', l) cs)), arg)
    end
  end end.

Fixpoint height (t : tree) : nat :=
  match t with Leaf _ => 0 | Node cs => S (fold_right (fun c h => Nat.max (height (snd c)) h) 0 cs) end.

(* Insert (f constant) and Update (f the callback): root split, then the descent *)
Definition upsert (order : nat) (key : K) (f : option V -> V) (t : tree) : res (tree * option V) :=
  let fuel := S (S (height t)) in
  match maybe_split order t with
  | None => ins_loop fuel order key f t
  | Some (l, r) =>
    ls <- smallest l ;; rs <- smallest r ;;
    let ls' := if ltb key ls then key else ls in
    if ltb key rs then
      '(l', arg) <- ins_loop fuel order key f l ;; Ok (Node [(ls', l'); (rs, r)], arg)
    else
      '(r', arg) <- ins_loop fuel order key f r ;; Ok (Node [(ls', l); (rs, r')], arg)
  end.

Definition adopt_from_right (l r : tree) : res (tree * tree) :=
  match l, r with
  | Leaf le, Leaf (x :: re) => Ok (Leaf (le ++ [x]), Leaf re)
  | Node lc, Node (x :: rc) => Ok (Node (lc ++ [x]), Node rc)
  | _, _ => Panic PAdoptR
  end.
Definition adopt_from_left (l r : tree) : res (tree * tree) :=
  match l, r with
  | Leaf le, Leaf re => match rev le with x :: le' => Ok (Leaf (rev le'), Leaf (x :: re)) | [] => Panic PAdoptL end
  | Node lc, Node rc => match rev lc with x :: lc' => Ok (Node (rev lc'), Node (x :: rc)) | [] => Panic PAdoptL end
  | _, _ => Panic PAdoptL
  end.
Definition absorb_right (l r : tree) : res tree :=
  match l, r with
  | Leaf le, Leaf re => Ok (Leaf (le ++ re))
  | Node lc, Node rc => Ok (Node (lc ++ rc))
  | _, _ => Panic PAbsorb
  end.

Definition set_child (i : nat) (c : tree) (cs : list (K * tree)) : list (K * tree) :=
  match nth_error cs i with Some (s, _) => set_nth i (s, c) cs | None => cs end.

(* leaf deleteKey *)
Definition leaf_delete (minSize : nat) (key : K) (es : list (K * V)) : res (list (K * V) * bool) :=
  index <- search_ge key (map fst es) ;;
  match nth_error es index with
  | None => Ok (es, false)
  | Some (k, _) =>
    if eqvb key k then let es' := del_nth index es in Ok (es', length es' <? minSize)
    else Ok (es, false)
  end.

(* internal deleteKey after the child returned "too small": borrow right / borrow left / merge *)
Definition rebalance (minSize : nat) (index : nat) (cs : list (K * tree)) : res (list (K * tree) * bool) :=
  '(_, child) <- get_nth index cs ;;
  let has_right := index + 1 <? length cs in
  let has_left := 0 <? index in
  let rightCount := if has_right then match nth_error cs (index + 1) with Some (_, r) => count r | None => 0 end else 0 in
  let leftCount := if has_left then match nth_error cs (index - 1) with Some (_, l) => count l | None => 0 end else 0 in
  if has_right && (minSize <? rightCount) then
    '(_, rgt) <- get_nth (index + 1) cs ;;
    '(child', rgt') <- adopt_from_right child rgt ;;
    rs <- smallest rgt' ;;
    Ok (set_nth (index + 1) (rs, rgt') (set_child index child' cs), false)
  else if has_left && (minSize <? leftCount) then
    '(_, lft) <- get_nth (index - 1) cs ;;
    '(lft', child') <- adopt_from_left lft child ;;
    sm <- smallest child' ;;                                       (* F2 *)
    Ok (set_nth index (sm, child') (set_child (index - 1) lft' cs), false)
  else if 0 <? leftCount then
    '(_, lft) <- get_nth (index - 1) cs ;;
    lft' <- absorb_right lft child ;;
    let cs' := del_nth index (set_child (index - 1) lft' cs) in
    Ok (cs', length cs' <? minSize)
  else if rightCount =? 0 then Panic PNoSiblings
  else
    '(_, rgt) <- get_nth (index + 1) cs ;;
    child' <- absorb_right child rgt ;;
    let cs' := del_nth (index + 1) (set_child index child' cs) in
    Ok (cs', length cs' <? minSize).

Fixpoint del_node (fuel : nat) (minSize : nat) (key : K) (n : tree) : res (tree * bool) :=
  match fuel with 0 => Panic PFuel | S fuel' =>
  match n with
  | Leaf es => '(es', small) <- leaf_delete minSize key es ;; Ok (Leaf es', small)
  | Node cs =>
    index <- search_le key (map fst cs) ;;
    '(_, child0) <- get_nth index cs ;;
    '(child, small) <- del_node fuel' minSize key child0 ;;
    let cs1 := set_child index child cs in
    if negb small then Ok (Node cs1, false) else
    '(cs', small') <- rebalance minSize index cs1 ;;
    Ok (Node cs', small')
  end end.

(* Delete: minimum size is half the order (F1); a root left with one child is replaced by it *)
Definition delete (order : nat) (key : K) (t : tree) : res tree :=
  '(t', small) <- del_node (S (height t)) (Nat.div2 order) key t ;;
  if negb small || (1 <? count t') then Ok t' else
  match t' with
  | Node ((_, c) :: _) => Ok c
  | Node [] => Panic PIndex
  | Leaf _ => Ok t'
  end.

Fixpoint search_loop (fuel : nat) (key : K) (n : tree) : res (option V) :=
  match fuel with 0 => Panic PFuel | S fuel' =>
  match n with
  | Leaf [] => Ok None
  | Leaf es =>
    i <- search_ge key (map fst es) ;;
    '(k, v) <- get_nth i es ;;
    Ok (if eqvb key k then Some v else None)
  | Node cs =>
    index <- search_le key (map fst cs) ;;
    '(_, child) <- get_nth index cs ;;
    search_loop fuel' key child
  end end.
Definition search (key : K) (t : tree) : res (option V) := search_loop (S (height t)) key t.

(* the contents in leaf-chain order: the abstraction function *)
Fixpoint entries (t : tree) : list (K * V) :=
  match t with Leaf es => es | Node cs => flat_map (fun c => entries (snd c)) cs end.

(* NewScanner + Scan/Pair until false: position in the landed leaf (with the F3 step), then the
   rest of the leaves in order *)
Definition leaf_scan_pos (key : K) (es : list (K * V)) : res nat :=
  i <- search_ge key (map fst es) ;;
  Ok (match nth_error es i with Some (k, _) => if ltb k key then S i else i | None => i end).

Fixpoint scan_loop (fuel : nat) (key : K) (n : tree) : res (list (K * V)) :=
  match fuel with 0 => Panic PFuel | S fuel' =>
  match n with
  | Leaf es => i <- leaf_scan_pos key es ;; Ok (skipn i es)
  | Node cs =>
    index <- search_le key (map fst cs) ;;
    '(_, child) <- get_nth index cs ;;
    r <- scan_loop fuel' key child ;;
    Ok (r ++ flat_map (fun c => entries (snd c)) (skipn (S index) cs))
  end end.
Definition scan (key : K) (t : tree) : res (list (K * V)) := scan_loop (S (height t)) key t.

(* ---- histories ---- *)
Definition step_tree (order : nat) (t : tree) (o : op K V) : res (tree * obs V) :=
  match o with
  | OInsert k v => '(t', _) <- upsert order k (fun _ => v) t ;; Ok (t', ObsUnit)
  | OUpdate k f => '(t', a) <- upsert order k f t ;; Ok (t', ObsArg a)
  | ODelete k => t' <- delete order k t ;; Ok (t', ObsUnit)
  | OSearch k => r <- search k t ;; Ok (t, ObsFound r)
  end.

Fixpoint run_tree (order : nat) (t : tree) (ops : list (op K V)) : res (tree * list (obs V)) :=
  match ops with
  | [] => Ok (t, [])
  | o :: ops' =>
    '(t', x) <- step_tree order t o ;;
    '(t'', xs) <- run_tree order t' ops' ;;
    Ok (t'', x :: xs)
  end.

End Model.


(* TreeLemmas.v — generic facts used by UpsertProof.v: slice idioms on a list split at an index,
   strictly-sorted lists, put/lookup over a decomposition, and structural facts about ordered trees. *)
From Coq Require Import List Bool Lia PeanoNat Sorted.
From GB Require Import Model Spec Inv ListLemmas SearchProof.
Import ListNotations.

(* ---------- lists split at an index ---------- *)
Lemma firstn_app_len {A} (a b : list A) : firstn (length a) (a ++ b) = a.
Proof. induction a as [|x a IH]; simpl; [reflexivity|]. now rewrite IH. Qed.
Lemma skipn_app_len {A} (a b : list A) : skipn (length a) (a ++ b) = b.
Proof. induction a as [|x a IH]; simpl; auto. Qed.
Lemma skipn_S_app_len {A} (a : list A) x b : skipn (S (length a)) (a ++ x :: b) = b.
Proof. induction a as [|y a IH]; simpl; auto. Qed.

Lemma set_nth_app {A} (a : list A) x y b : set_nth (length a) y (a ++ x :: b) = a ++ y :: b.
Proof. unfold set_nth. now rewrite firstn_app_len, skipn_S_app_len. Qed.
Lemma ins_nth_app {A} (a : list A) y b : ins_nth (length a) y (a ++ b) = a ++ y :: b.
Proof. unfold ins_nth. now rewrite firstn_app_len, skipn_app_len. Qed.
Lemma get_nth_app {A} (a : list A) x b : get_nth (length a) (a ++ x :: b) = Ok x.
Proof. unfold get_nth. induction a as [|y a IH]; simpl; auto. Qed.

Lemma last_map_some {A B} (g : A -> B) (l : list A) x : last (map (fun e => Some (g e)) (l ++ [x])) None = Some (g x).
Proof. induction l as [|y l IH]; simpl; auto. destruct (l ++ [x]) eqn:E; [destruct l; discriminate|]. exact IH. Qed.

Lemma list_snoc_cases {A} (l : list A) : l = [] \/ exists l' x, l = l' ++ [x].
Proof.
  induction l as [|y l IH]; [now left|right]. destruct IH as [->|[l' [x ->]]].
  - exists [], y. reflexivity.
  - exists (y :: l'), x. reflexivity.
Qed.

Lemma even_div2 n : Nat.even n = true -> Nat.div2 n + Nat.div2 n = n.
Proof.
  intros H. apply Nat.even_spec in H. destruct H as [m ->].
  rewrite Nat.div2_double. lia.
Qed.

Section T.
Variables (K V : Type) (ltb : K -> K -> bool).
Hypothesis HS : SWO ltb.
Notation tree := (tree K V).
Notation SS := (StronglySorted (fun a b => ltb a b = true)).
Notation AK := (flat_map (fun c : K * tree => fst c :: allkeys (snd c))).
Notation EN := (flat_map (fun c : K * tree => entries (snd c))).

Definition irrefl := ltb_irrefl K ltb HS.
Definition trans := ltb_trans K ltb HS.
Definition asym := lt_asym K ltb HS.
Definition ltle := lt_le_trans K ltb HS.   (* a<b -> ~c<b -> a<c *)
Definition lelt := le_lt_trans K ltb HS.   (* ~b<a -> b<c -> a<c *)
Definition negtrans := ltb_negtrans K ltb HS.

(* ---------- strictly sorted lists ---------- *)
Lemma SS_app_iff (a b : list K) :
  SS (a ++ b) <-> SS a /\ SS b /\ Forall (fun x => Forall (fun y => ltb x y = true) b) a.
Proof.
  induction a as [|x a IH]; simpl.
  - split; [intros H; repeat split; auto; constructor|tauto].
  - split.
    + intros H. inversion H as [|? ? Hs Hall]; subst. apply IH in Hs. destruct Hs as (Ha & Hb & Hab).
      apply Forall_app in Hall. destruct Hall as [H1 H2].
      repeat split; auto; constructor; auto.
    + intros (Ha & Hb & Hab). inversion Ha as [|? ? Hs Hall]; subst. inversion Hab as [|? ? Hx Hab']; subst.
      constructor; [apply IH; auto|apply Forall_app; auto].
Qed.

Lemma asc_SS ks : asc ltb ks <-> SS ks.
Proof. split; [apply asc_sorted|apply sorted_asc]; exact HS. Qed.

Lemma SS_cons_iff x (l : list K) : SS (x :: l) <-> SS l /\ Forall (fun y => ltb x y = true) l.
Proof. split; [intros H; inversion H; auto|intros [H1 H2]; constructor; auto]. Qed.

(* ---------- put / lookup over a decomposition ---------- *)
Lemma put_app_below k (f : option V -> V) A M :
  Forall (fun e : K * V => ltb (fst e) k = true) A -> put ltb k f (A ++ M) = A ++ put ltb k f M.
Proof.
  induction A as [|[k' v] A IH]; intros H; simpl; [reflexivity|].
  inversion H as [|? ? Hk HA]; subst. simpl in Hk. rewrite (asym _ _ Hk), Hk. f_equal. auto.
Qed.
Lemma lookup_app_below k A (M : list (K * V)) :
  Forall (fun e : K * V => ltb (fst e) k = true) A -> lookup ltb k (A ++ M) = lookup ltb k M.
Proof.
  induction A as [|[k' v] A IH]; intros H; simpl; [reflexivity|].
  inversion H as [|? ? Hk HA]; subst. simpl in Hk. rewrite (asym _ _ Hk), Hk. auto.
Qed.
Lemma put_app_above k (f : option V -> V) M B :
  Forall (fun e : K * V => ltb k (fst e) = true) B -> put ltb k f (M ++ B) = put ltb k f M ++ B.
Proof.
  intros HB. induction M as [|[k' v] M IH]; simpl.
  - destruct B as [|[k' v] B]; [reflexivity|]. inversion HB as [|? ? Hk _]; subst. simpl in *. now rewrite Hk.
  - destruct (ltb k k'); [reflexivity|]. destruct (ltb k' k); [|reflexivity]. simpl. now rewrite IH.
Qed.
Lemma lookup_app_above k M (B : list (K * V)) :
  Forall (fun e : K * V => ltb k (fst e) = true) B -> lookup ltb k (M ++ B) = lookup ltb k M.
Proof.
  intros HB. induction M as [|[k' v] M IH]; simpl.
  - destruct B as [|[k' v] B]; [reflexivity|]. inversion HB as [|? ? Hk _]; subst. simpl in *. now rewrite Hk.
  - destruct (ltb k k'); [reflexivity|]. destruct (ltb k' k); [|reflexivity]. exact IH.
Qed.
Lemma lookup_all_below k (A : list (K * V)) :
  Forall (fun e : K * V => ltb (fst e) k = true) A -> lookup ltb k A = None.
Proof. intros H. rewrite <- (app_nil_r A). now rewrite lookup_app_below. Qed.
Lemma put_all_below k f (A : list (K * V)) :
  Forall (fun e : K * V => ltb (fst e) k = true) A -> put ltb k f A = A ++ [(k, f None)].
Proof. intros H. rewrite <- (app_nil_r A) at 1. now rewrite put_app_below. Qed.

(* ---------- induction principle for the nested tree type ---------- *)
Section TreeInd.
Variable P : tree -> Prop.
Hypothesis HL : forall es, P (Leaf es).
Hypothesis HN : forall cs, Forall (fun c => P (snd c)) cs -> P (Node cs).
Fixpoint tree_ind' (t : tree) : P t :=
  match t with
  | Leaf es => HL es
  | Node cs => HN cs ((fix go (cs : list (K * tree)) : Forall (fun c => P (snd c)) cs :=
                         match cs with
                         | [] => Forall_nil _
                         | (s, c) :: r => @Forall_cons _ (fun c => P (snd c)) (s, c) r (tree_ind' c) (go r)
                         end) cs)
  end.
End TreeInd.

(* the keys of the entries are among allkeys *)
Lemma entries_keys (Q : K -> Prop) (t : tree) : Forall Q (allkeys t) -> Forall (fun e => Q (fst e)) (entries t).
Proof.
  induction t as [es|cs IH] using tree_ind'; simpl.
  - intros H. rewrite Forall_map in H. exact H.
  - induction cs as [|[s c] cs IHcs]; simpl; intros H; [constructor|].
    inversion IH as [|? ? Hc Hcs]; subst. inversion H as [|? ? _ H']; subst.
    apply Forall_app in H'. destruct H' as [H1 H2]. apply Forall_app. split; auto.
Qed.
Lemma EN_keys (Q : K -> Prop) (cs : list (K * tree)) : Forall Q (AK cs) -> Forall (fun e => Q (fst e)) (EN cs).
Proof. apply (entries_keys Q (Node cs)). Qed.

(* ---------- all_kids / seps_ok over append ---------- *)
Lemma all_kids_app (P : tree -> Prop) a b : all_kids P (a ++ b) <-> all_kids P a /\ all_kids P b.
Proof. induction a as [|[s c] a IH]; simpl; tauto. Qed.

Lemma all_kids_impl (P Q : tree -> Prop) cs : (forall c, P c -> Q c) -> all_kids P cs -> all_kids Q cs.
Proof. intros H. induction cs as [|[s c] cs IH]; simpl; [auto|]. intros [H1 H2]. split; auto. Qed.

Lemma seps_ok_app_inv a b : seps_ok ltb (a ++ b) -> seps_ok ltb a /\ seps_ok ltb (V:=V) b.
Proof.
  induction a as [|[s c] a IH]; simpl; [tauto|]. intros (H1 & H2 & H3). apply IH in H3. destruct H3 as [H3 H4].
  repeat split; auto. destruct a as [|[s' c'] a]; simpl in *; auto.
Qed.

(* every key strictly before position of separator s is below s *)
Lemma pre_below pre s (c : tree) post :
  SS (map fst (pre ++ (s, c) :: post)) -> seps_ok ltb (pre ++ (s, c) :: post) ->
  Forall (fun x => ltb x s = true) (AK pre).
Proof.
  induction pre as [|[s0 c0] pre IH]; simpl; intros Hs Ho; [constructor|].
  destruct Ho as (H1 & H2 & H3). apply SS_cons_iff in Hs. destruct Hs as [Hs Hlt].
  specialize (IH Hs H3).
  assert (Hs0 : ltb s0 s = true).
  { rewrite Forall_forall in Hlt. apply Hlt. rewrite map_app. apply in_or_app. right. simpl. now left. }
  constructor; [exact Hs0|]. apply Forall_app. split; [|exact IH].
  destruct pre as [|[s1 c1] pre]; simpl in *; [exact H2|].
  inversion IH as [|? ? Hs1 _]; subst.
  eapply Forall_impl; [|exact H2]. unfold lt. intros x Hx. eapply trans; eauto.
Qed.

(* every key at or after a separator above k is above k *)
Lemma post_above k (post : list (K * tree)) :
  Forall (fun e => ltb k (fst e) = true) post -> seps_ok ltb post ->
  Forall (fun x => ltb k x = true) (AK post).
Proof.
  induction post as [|[s c] post IH]; simpl; intros Hk Ho; [constructor|].
  inversion Hk as [|? ? Hks Hk']; subst. simpl in Hks. destruct Ho as (H1 & _ & H3).
  constructor; [exact Hks|]. apply Forall_app. split; [|auto].
  eapply Forall_impl; [|exact H1]. unfold le. intros x Hx. eapply ltle; eauto.
Qed.

(* the first key / separator of an ordered node is a lower bound of everything beneath it *)
Lemma smallest_le (t : tree) sm : ordered ltb t -> smallest t = Ok sm -> Forall (fun x => ltb x sm = false) (allkeys t).
Proof.
  destruct t as [[|[k v] es]|[|[s c] cs]]; intros Ho E; simpl in E; try discriminate; inversion E; subst;
    cbn [ordered allkeys map fst flat_map snd] in *.
  - apply asc_SS in Ho. apply SS_cons_iff in Ho. destruct Ho as [_ Ho].
    constructor; [apply irrefl|]. eapply Forall_impl; [|exact Ho]. intros x Hx. now apply asym.
  - destruct Ho as (Ha & Hso & _). apply asc_SS in Ha. simpl in Hso. destruct Hso as (H1 & _ & H3). simpl. apply SS_cons_iff in Ha. destruct Ha as [_ Ha].
    constructor; [apply irrefl|]. apply Forall_app. split; [exact H1|].
    assert (Hp : Forall (fun x => ltb sm x = true) (AK cs)).
    { apply post_above; auto. rewrite Forall_map in Ha. exact Ha. }
    eapply Forall_impl; [|exact Hp]. intros x Hx. now apply asym.
Qed.

(* ---------- balance and height ---------- *)
Lemma kids_height d (cs : list (K * tree)) :
  cs <> [] -> Forall (fun c => height (snd c) = d) cs ->
  fold_right (fun c h => Nat.max (height (snd c)) h) 0 cs = d.
Proof.
  induction cs as [|[s c] cs IH]; [congruence|]. intros _ H. inversion H as [|? ? Hc Hcs]; subst. simpl in *.
  destruct cs as [|c' cs]; [simpl; lia|]. rewrite IH; [lia|congruence|exact Hcs].
Qed.

Lemma all_kids_Forall (P : tree -> Prop) cs : all_kids P cs <-> Forall (fun c => P (snd c)) cs.
Proof.
  induction cs as [|[s c] cs IH]; simpl; [split; auto|]. rewrite IH. split.
  - intros [H1 H2]; constructor; auto.
  - intros H; inversion H; auto.
Qed.

Lemma bal_height d : forall t : tree, bal d t -> height t = d.
Proof.
  induction d as [|d IH]; intros [es|cs]; simpl; try tauto.
  intros [Hne Hk]. f_equal. apply kids_height; [exact Hne|].
  apply (proj1 (all_kids_Forall (fun c => height c = d) cs)). eapply all_kids_impl; [|exact Hk]. exact IH.
Qed.


(* ---------- replacing the middle of a children list ---------- *)
Lemma seps_ok_replace pre s (c : tree) post s1 c1 mid :
  seps_ok ltb (pre ++ (s, c) :: post) ->
  seps_ok ltb ((s1, c1) :: mid ++ post) ->
  (pre = [] \/ s1 = s) ->
  seps_ok ltb (pre ++ (s1, c1) :: mid ++ post).
Proof.
  induction pre as [|[s0 c0] pre IH]; intros H1 H2 H3; [exact H2|].
  destruct H3 as [H3|H3]; [discriminate|]. subst s1.
  simpl in H1. destruct H1 as (Ha & Hb & Hc).
  change (seps_ok ltb ((s0, c0) :: (pre ++ (s, c1) :: mid ++ post))).
  simpl. split; [exact Ha|]. split.
  - destruct pre as [|[s' c'] pre]; simpl in *; exact Hb.
  - apply IH; auto.
Qed.

Lemma SS_replace (p : list K) s q s1 m :
  SS (p ++ s :: q) -> SS (s1 :: m ++ q) -> (p = [] \/ s1 = s) -> SS (p ++ s1 :: m ++ q).
Proof.
  intros H1 H2 H3. destruct p as [|p0 p]; [exact H2|]. destruct H3 as [H3|H3]; [discriminate|]. subst s1.
  apply SS_app_iff in H1. destruct H1 as (Hp & Hsq & Hall).
  apply SS_app_iff. repeat split; auto.
  eapply Forall_impl; [|exact Hall]. intros x Hx. inversion Hx as [|? ? Hxs _]; subst.
  apply SS_cons_iff in H2. destruct H2 as [_ H2]. constructor; auto.
  eapply Forall_impl; [|exact H2]. intros y Hy. eapply trans; eauto.
Qed.

(* ---------- occupancy beneath a node, and splitting a full node ---------- *)
Definition occ_kids (order : nat) (t : tree) : Prop :=
  match t with Leaf _ => True | Node cs => all_kids (fun c => occ order false c) cs end.

Lemma occ_unfold order isroot (t : tree) :
  occ order isroot t <->
  count t <= order /\
  (if isroot then match t with Leaf _ => True | Node _ => root_min order <= count t end
   else Nat.div2 order <= count t) /\ occ_kids order t.
Proof. destruct t; simpl; tauto. Qed.

Lemma smallest_ok (t : tree) : 1 <= count t -> exists sm, smallest t = Ok sm.
Proof. destruct t as [[|[k v] es]|[|[s c] cs]]; simpl; intros H; try lia; eauto. Qed.

Lemma smallest_in (t : tree) sm : smallest t = Ok sm -> In sm (allkeys t).
Proof. destruct t as [[|[k v] es]|[|[s c] cs]]; simpl; intros H; try discriminate; inversion H; subst; now left. Qed.

Lemma maybe_split_none order (t : tree) : maybe_split order t = None -> count t < order.
Proof.
  unfold maybe_split. destruct (count t <? order) eqn:E; [intros _; now apply Nat.ltb_lt|destruct t; discriminate].
Qed.

Lemma maybe_split_some order (t l r : tree) :
  2 <= order -> Nat.even order = true -> count t <= order ->
  maybe_split order t = Some (l, r) ->
  1 <= Nat.div2 order /\ Nat.div2 order < order /\
  ((exists a b, t = Leaf (a ++ b) /\ l = Leaf a /\ r = Leaf b /\ length a = Nat.div2 order /\ length b = Nat.div2 order) \/
   (exists a b, t = Node (a ++ b) /\ l = Node a /\ r = Node b /\ length a = Nat.div2 order /\ length b = Nat.div2 order)).
Proof.
  intros H2 Hev Hc. unfold maybe_split. destruct (count t <? order) eqn:E; [discriminate|].
  apply Nat.ltb_ge in E. pose proof (even_div2 order Hev) as Hh. set (h := Nat.div2 order) in *.
  intros X. split; [lia|]. split; [lia|].
  destruct t as [es|cs]; simpl in *; inversion X; subst l r; [left|right].
  - exists (firstn h es), (skipn h es). rewrite firstn_skipn.
    assert (length (skipn h es) = h) by (rewrite skipn_length; lia).
    rewrite (firstn_all2 (n:=h) (skipn h es)) by lia. rewrite firstn_length. repeat split; auto; lia.
  - exists (firstn h cs), (skipn h cs). rewrite firstn_skipn.
    assert (length (skipn h cs) = h) by (rewrite skipn_length; lia).
    rewrite (firstn_all2 (n:=h) (skipn h cs)) by lia. rewrite firstn_length. repeat split; auto; lia.
Qed.

Lemma split_facts order d (t l r : tree) :
  2 <= order -> Nat.even order = true -> count t <= order ->
  maybe_split order t = Some (l, r) ->
  ordered ltb t -> bal d t -> occ_kids order t ->
  entries t = entries l ++ entries r /\
  allkeys t = allkeys l ++ allkeys r /\
  ordered ltb l /\ ordered ltb r /\ bal d l /\ bal d r /\ occ_kids order l /\ occ_kids order r /\
  count l = Nat.div2 order /\ count r = Nat.div2 order /\
  smallest l = smallest t /\
  exists rs, smallest r = Ok rs /\ Forall (fun x => ltb x rs = true) (allkeys l).
Proof.
  intros H2 Hev Hc Hm Ho Hb Hk.
  destruct (maybe_split_some order t l r H2 Hev Hc Hm) as (Hh1 & Hh2 & [(a & b & -> & -> & -> & La & Lb)|(a & b & -> & -> & -> & La & Lb)]).
  - cbn [ordered allkeys entries count smallest] in *. rewrite map_app in *.
    apply asc_SS in Ho. apply SS_app_iff in Ho. destruct Ho as (Hsa & Hsb & Hab).
    destruct d; [|simpl in Hb; tauto].
    repeat split; auto; try (apply asc_SS; assumption).
    + destruct a as [|[k v] a]; [simpl in La; lia|reflexivity].
    + destruct b as [|[k v] b]; [simpl in Lb; lia|]. exists k. split; [reflexivity|].
      eapply Forall_impl; [|exact Hab]. intros x Hx. inversion Hx; auto.
  - cbn [ordered allkeys entries count smallest] in *. rewrite !flat_map_app.
    destruct Ho as (Ha & Hso & Hak). rewrite map_app in Ha.
    pose proof Ha as Ha'. apply asc_SS in Ha'. apply SS_app_iff in Ha'. destruct Ha' as (Hsa & Hsb & Hab).
    pose proof (seps_ok_app_inv _ _ Hso) as [Hso1 Hso2].
    apply all_kids_app in Hak. destruct Hak as [Hak1 Hak2].
    apply all_kids_app in Hk. destruct Hk as [Hk1 Hk2].
    destruct d as [|d]; [simpl in Hb; tauto|]. simpl in Hb. destruct Hb as [_ Hb].
    apply all_kids_app in Hb. destruct Hb as [Hb1 Hb2].
    assert (Hna : a <> []) by (destruct a; [simpl in La; lia|congruence]).
    assert (Hnb : b <> []) by (destruct b; [simpl in Lb; lia|congruence]).
    repeat split; auto; try (apply asc_SS; assumption).
    + destruct a as [|[s c] a]; [congruence|reflexivity].
    + destruct b as [|[s c] b]; [congruence|]. exists s. split; [reflexivity|].
      eapply pre_below; [|exact Hso]. apply asc_SS. rewrite map_app. exact Ha.
Qed.


Lemma maybe_split_some_count order (t l r : tree) : maybe_split order t = Some (l, r) -> order <= count t.
Proof. unfold maybe_split. destruct (count t <? order) eqn:E; [discriminate|]. intros _. now apply Nat.ltb_ge. Qed.

Lemma div2_ge1 n : 2 <= n -> 1 <= Nat.div2 n.
Proof. destruct n as [|[|n]]; simpl; lia. Qed.

Lemma fst_in_AK x (cs : list (K * tree)) : In x (map fst cs) -> In x (AK cs).
Proof.
  induction cs as [|[s c] cs IH]; simpl; [tauto|]. intros [->|H]; [now left|right]. apply in_or_app. right. auto.
Qed.

Lemma seps_ok_app_intro (a b : list (K * tree)) :
  seps_ok ltb a -> seps_ok ltb b ->
  match b with [] => True | (s', _) :: _ => Forall (fun x => ltb x s' = true) (AK a) end ->
  seps_ok ltb (a ++ b).
Proof.
  induction a as [|[s0 c0] a IH]; intros Ha Hb Hl; [exact Hb|].
  simpl in Ha. destruct Ha as (H1 & H2 & H3).
  change (seps_ok ltb ((s0, c0) :: (a ++ b))). simpl. split; [exact H1|]. split.
  - destruct a as [|[s1 c1] a]; simpl; [|exact H2].
    destruct b as [|[s' c'] b]; [exact I|]. simpl in Hl. inversion Hl as [|? ? _ Hl']; subst.
    apply Forall_app in Hl'. destruct Hl' as [Hl' _]. exact Hl'.
  - apply IH; auto. destruct b as [|[s' c'] b]; [exact I|]. simpl in Hl. inversion Hl as [|? ? _ Hl']; subst.
    apply Forall_app in Hl'. tauto.
Qed.

(* keys of [B] come from [A] or are the inserted key *)
Definition keys_from (A : list K) (k : K) (B : list K) : Prop := Forall (fun x => In x A \/ x = k) B.

Lemma keys_from_forall A k B (Q : K -> Prop) : keys_from A k B -> Forall Q A -> Q k -> Forall Q B.
Proof. intros H HA Hk. eapply Forall_impl; [|exact H]. intros x [Hx| ->]; auto. rewrite Forall_forall in HA; auto. Qed.

Lemma keys_from_incl A A' k B : keys_from A k B -> incl A A' -> keys_from A' k B.
Proof. intros H Hi. eapply Forall_impl; [|exact H]. intros x [Hx| ->]; [left; auto|now right]. Qed.

(* ---------- put on a sorted association list ---------- *)
Lemma put_keys k f (es : list (K * V)) : keys_from (map fst es) k (map fst (put ltb k f es)).
Proof.
  induction es as [|[k' v] es IH]; simpl.
  - constructor; auto.
  - destruct (ltb k k'); [|destruct (ltb k' k)]; simpl.
    + constructor; [now right|]. constructor; [left; now left|]. apply Forall_forall. intros x Hx. left. now right.
    + constructor; [left; now left|]. eapply Forall_impl; [|exact IH]. intros x [Hx| ->]; [left; now right|now right].
    + constructor; [left; now left|]. apply Forall_forall. intros x Hx. left; now right.
Qed.

Lemma put_SS k f (es : list (K * V)) : SS (map fst es) -> SS (map fst (put ltb k f es)).
Proof.
  induction es as [|[k' v] es IH]; simpl; intros H.
  - repeat constructor.
  - apply SS_cons_iff in H. destruct H as [H1 H2]. destruct (ltb k k') eqn:E1; [|destruct (ltb k' k) eqn:E2]; simpl.
    + apply SS_cons_iff. split; [apply SS_cons_iff; auto|]. constructor; auto.
      eapply Forall_impl; [|exact H2]. intros x Hx. eapply trans; eauto.
    + apply SS_cons_iff. split; [auto|]. eapply keys_from_forall; [apply put_keys|exact H2|exact E2].
    + apply SS_cons_iff; auto.
Qed.

Lemma put_length k f (es : list (K * V)) : length es <= length (put ltb k f es) <= S (length es).
Proof.
  induction es as [|[k' v] es IH]; simpl; [lia|]. destruct (ltb k k'); [|destruct (ltb k' k)]; simpl; lia.
Qed.

End T.

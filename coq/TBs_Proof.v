(* TBs_Proof.v — property C04 in its textbook (Herlihy-Wing) form: the history of every execution of the
   concurrent B+tree model, INCLUDING the responses of the individual Scan steps of its cursors, is linearizable
   ([linearizable_q] of TBs_Def.v) with respect to the ideal map extended with atomic successor queries.
   The witness is the list of linearization-point records of the trace in trace order (the witness of TB_HW.v)
   interleaved with one query item per [EPair] / [EScanEnd] record, placed at that record.
   See the summary at the end of the file. *)
From Coq Require Import List Bool PeanoNat Lia Sorted.
From GB Require Import Model Inv Spec Conc LinDef SoloBase LINc_Blocks LINc_Proof Final C4_Blocks
  TB_Trace TB_Link TB_Proof TBs_Lists TBs_Def TBs_Spec TBs_Trace.
From GB Require TB_HW.
Import ListNotations.

(* ================================================================================================ *)
(* positions of the events of a trace in its history                                                 *)
(* ================================================================================================ *)
Section QPos.
Variables (K V : Type).
Notation irec := (irec K V).
Notation event := (event K V).

(* the position in the history at which the events of the j-th record begin *)
Definition qpos (T : list irec) (j : nat) : nat := fpos (@qrec_hist K V) T j.

Lemma qrec_len (r : irec) : length (qrec_hist r) = length (r_ev r).
Proof. unfold qrec_hist. apply map_length. Qed.

Lemma hist_event (T : list irec) j r i ev :
  nth_error T j = Some r -> nth_error (r_ev r) i = Some ev ->
  nth_error (qhistory_of T) (qpos T j + i) = Some (qhev_of (r_tid r) ev).
Proof.
  intros Hj Hi. unfold qhistory_of, qpos. apply (fpos_nth _ T j r i); [exact Hj|].
  unfold qrec_hist. apply map_nth_error. exact Hi.
Qed.

Lemma hist_event0 (T : list irec) j r ev :
  nth_error T j = Some r -> r_ev r = [ev] -> nth_error (qhistory_of T) (qpos T j) = Some (qhev_of (r_tid r) ev).
Proof.
  intros Hj He. rewrite <- (Nat.add_0_r (qpos T j)). apply hist_event; [exact Hj|]. rewrite He. reflexivity.
Qed.

Lemma hist_inv (T : list irec) p e : nth_error (qhistory_of T) p = Some e ->
  exists j r i ev, nth_error T j = Some r /\ nth_error (r_ev r) i = Some ev /\ e = qhev_of (r_tid r) ev /\
                   p = qpos T j + i.
Proof.
  intros H. destruct (fpos_inv _ _ _ _ H) as (j & r & i & H1 & H2 & H3).
  unfold qrec_hist in H2. rewrite nth_error_map in H2.
  destruct (nth_error (r_ev r) i) as [ev|] eqn:E; [|discriminate H2]. simpl in H2. inversion H2; subst e.
  exists j, r, i, ev. auto.
Qed.

Lemma nth_lt {A} (l : list A) i x : nth_error l i = Some x -> i < length l.
Proof. intros H. apply nth_error_Some. rewrite H. discriminate. Qed.

(* order of positions and order of records *)
Lemma qpos_le (T : list irec) j1 j2 r1 r2 i1 i2 :
  nth_error T j1 = Some r1 -> i1 < length (r_ev r1) -> nth_error T j2 = Some r2 -> i2 < length (r_ev r2) ->
  qpos T j1 + i1 <= qpos T j2 + i2 -> j1 <= j2.
Proof.
  intros H1 L1 H2 L2. apply (fpos_order _ T j1 j2 r1 r2 i1 i2); try assumption; rewrite qrec_len; assumption.
Qed.

Lemma qpos_lt (T : list irec) j1 j2 r1 r2 i1 i2 :
  nth_error T j1 = Some r1 -> i1 < length (r_ev r1) -> nth_error T j2 = Some r2 -> i2 < length (r_ev r2) ->
  qpos T j1 + i1 < qpos T j2 + i2 -> j1 < j2 \/ (j1 = j2 /\ i1 < i2).
Proof.
  intros H1 L1 H2 L2. apply (fpos_order_lt _ T j1 j2 r1 r2 i1 i2); try assumption; rewrite qrec_len; assumption.
Qed.

(* a record with exactly one event lies strictly before every later record *)
Lemma qpos_next1 (T : list irec) j1 j2 r1 ev : j1 < j2 -> nth_error T j1 = Some r1 -> r_ev r1 = [ev] ->
  qpos T j1 < qpos T j2.
Proof.
  intros H H1 He. pose proof (fpos_lt (@qrec_hist K V) T j1 j2 r1 H H1) as X. rewrite qrec_len, He in X.
  simpl in X. unfold qpos. lia.
Qed.

Lemma qhev_tid t (ev : event) : hev_tid (qhev_of t ev) = t.
Proof. destruct ev; reflexivity. Qed.

End QPos.

Arguments qpos {K V} T j.

(* ================================================================================================ *)
(* the sequential witness of an annotated trace                                                      *)
(* ================================================================================================ *)
Section QWitness.
Variables (K V : Type) (ltb : K -> K -> bool).
Notation irec := (irec K V).
Notation event := (event K V).
Notation item := (item K V).
Notation qa_t := (option (qry K * option (K * V))).
Notation inv_b := (TB_HW.inv_b K V).

Definition nonnil {A} (l : list A) : bool := match l with [] => false | _ => true end.
Definition busy_b (t : tid) (r : irec) : bool := (r_tid r =? t) && nonnil (r_ev r).

Lemma busy_b_iff t r : busy_b t r = true <-> busy t r.
Proof.
  unfold busy_b, busy. rewrite andb_true_iff, Nat.eqb_eq. split; intros [H1 H2]; (split; [exact H1|]).
  - intros E. rewrite E in H2. discriminate H2.
  - destruct (r_ev r); [exfalso; apply H2; reflexivity|reflexivity].
Qed.

(* one item per linearization point (start: the last invocation of the thread) and per annotated record (start: the
   last event of the thread before the record), in trace order *)
Definition wit_f (T : list irec) (Q : list qa_t) (m : nat) (r : irec) : option item :=
  match nth_error Q m with
  | Some (Some (q, a)) => Some (qpos T (lastb (busy_b (r_tid r)) (firstn m T)), AQry q, RQry a)
  | _ => match r_lp r with
         | Some (po, x) => Some (qpos T (lastb (inv_b (r_tid r)) (firstn (S m) T)), AOp po, ROp x)
         | None => None
         end
  end.
Definition witness' (T : list irec) (Q : list qa_t) : list (nat * item) := TB_HW.ifilter (wit_f T Q) 0 T.
Definition witness (T : list irec) (Q : list qa_t) : list item := map snd (witness' T Q).

Lemma wit_in T Q m it :
  In (m, it) (witness' T Q) <-> exists r, nth_error T m = Some r /\ wit_f T Q m r = Some it.
Proof.
  unfold witness'. rewrite TB_HW.ifilter_in. rewrite Nat.sub_0_r. split.
  - intros (r & _ & H1 & H2). eauto.
  - intros (r & H1 & H2). exists r. split; [lia|]. split; assumption.
Qed.

(* ---- (c): the witness is the run of the extended specification recorded along the trace ---- *)
Lemma wit_items_gen T Q : forall l Q' j,
  length Q' = length l -> (forall m, nth_error Q (j + m) = nth_error Q' m) ->
  map (fun u : nat * item => (i_act (snd u), i_ans (snd u))) (TB_HW.ifilter (wit_f T Q) j l) = items_of l Q'.
Proof.
  induction l as [|r l IH]; intros Q' j Hlen Hnth; [reflexivity|].
  destruct Q' as [|qa Q']; [discriminate Hlen|]. simpl in Hlen.
  assert (Hnth' : forall m, nth_error Q (S j + m) = nth_error Q' m).
  { intros m. replace (S j + m) with (j + S m) by lia. rewrite Hnth. reflexivity. }
  specialize (IH Q' (S j) ltac:(lia) Hnth').
  pose proof (Hnth 0) as H0. rewrite Nat.add_0_r in H0. simpl in H0.
  cbn [TB_HW.ifilter items_of]. unfold wit_f at 1. rewrite H0. unfold rec_item.
  destruct qa as [[q a]|].
  - cbn [map snd i_act i_ans fst app]. rewrite IH. reflexivity.
  - destruct (r_lp r) as [[po x]|].
    + cbn [map snd i_act i_ans fst app]. rewrite IH. reflexivity.
    + cbn [app]. exact IH.
Qed.

Lemma witness_items T Q : length Q = length T ->
  map (fun it : item => (i_act it, i_ans it)) (witness T Q) = items_of T Q.
Proof.
  intros Hlen. unfold witness. rewrite map_map. apply wit_items_gen; [exact Hlen|]. intros m. reflexivity.
Qed.

Lemma witness_legal T Q : length Q = length T ->
  snd (run_q ltb [] (map fst (items_of T Q))) = map snd (items_of T Q) -> seq_legal_q ltb (witness T Q).
Proof.
  intros Hlen H. unfold seq_legal_q. rewrite <- (witness_items T Q Hlen) in H. rewrite !map_map in H.
  cbn [fst snd] in H. exact H.
Qed.

(* ---- the events of a well-shaped record ---- *)
Lemma shape_inv_ev (r : irec) i o : rec_shape r -> nth_error (r_ev r) i = Some (EInvoke o) ->
  i = 0 /\ r_ev r = [EInvoke o].
Proof.
  intros [(o' & E & _)|[[E|[e' E]]|(x' & [E|E])]] H; rewrite E in H;
    destruct i as [|[|[|i]]]; simpl in H; try discriminate H.
  inversion H; subst. split; [reflexivity|exact E].
Qed.

Lemma shape_pair_ev (r : irec) i e : rec_shape r -> nth_error (r_ev r) i = Some (EPair e) ->
  i = 0 /\ r_ev r = [EPair e].
Proof.
  intros [(o' & E & _)|[[E|[e' E]]|(x' & [E|E])]] H; rewrite E in H;
    destruct i as [|[|[|i]]]; simpl in H; try discriminate H.
  inversion H; subst. split; [reflexivity|exact E].
Qed.

Lemma shape_end_ev (r : irec) i : rec_shape r -> nth_error (r_ev r) i = Some EScanEnd ->
  i = 0 /\ exists x, r_ev r = [EScanEnd; EReturn x].
Proof.
  intros [(o' & E & _)|[[E|[e' E]]|(x' & [E|E])]] H; rewrite E in H;
    destruct i as [|[|[|i]]]; simpl in H; try discriminate H.
  split; [reflexivity|]. exists x'. exact E.
Qed.

Lemma shape_in_inv (r : irec) o : rec_shape r -> In (EInvoke o) (r_ev r) -> r_ev r = [EInvoke o].
Proof. intros Hsh Hin. apply In_nth_error in Hin. destruct Hin as [i Hi]. exact (proj2 (shape_inv_ev r i o Hsh Hi)). Qed.

Lemma ores_of_obs_inj (x y : obs V) : ores_of_obs K x = ores_of_obs K y -> x = y.
Proof. destruct x, y; simpl; intros H; inversion H; reflexivity. Qed.

Lemma spec_op_not_scan (o : cop K V) po : spec_op o = Some po -> is_scan o = false.
Proof. destruct o; simpl; intros H; try reflexivity. discriminate H. Qed.

(* a start event of a query is not the invocation of a point operation *)
Lemma start_qry_not_op (sev : event) q o po : start_qry sev q -> sev = EInvoke o -> spec_op o = Some po -> False.
Proof.
  intros [(k & cnt & -> & _)|(e0 & -> & _)] E Hop; [|discriminate E]. inversion E; subst o. discriminate Hop.
Qed.

Lemma resp_ev_nonnil (ev : list event) a : resp_ev ev a -> ev <> [].
Proof. intros [(e & -> & _)|(r & -> & _)]; discriminate. Qed.

Section Main.
Variable T : list irec.
Variable Q : list qa_t.
Hypothesis HSh : Shape T.
Hypothesis HG : Good T.
Hypothesis HLp : LpOk T.
Hypothesis HQ : QOk T Q.
Hypothesis HA : QAll T Q.
Let h := qhistory_of T.

Lemma shape_at j r : nth_error T j = Some r -> rec_shape r.
Proof. intros H. apply HSh. eapply nth_error_In; eauto. Qed.

Lemma last_inv_is a m t ra :
  a <= m -> nth_error T a = Some ra -> is_inv_any t ra -> none_in T (is_inv_any t) (S a) (S m) ->
  lastb (inv_b t) (firstn (S m) T) = a.
Proof.
  intros Ham Ha Hra Hnone. apply lastb_prefix with (r := ra); [lia|exact Ha|apply TB_HW.inv_b_iff; exact Hra|].
  intros j r' Hj Hn. destruct (inv_b t r') eqn:E; [|reflexivity]. exfalso.
  apply (Hnone j); [lia|]. exists r'. split; [exact Hn|]. apply TB_HW.inv_b_iff. exact E.
Qed.

Lemma last_busy_is b m t rb :
  b < m -> nth_error T b = Some rb -> busy t rb -> none_in T (busy t) (S b) m ->
  lastb (busy_b t) (firstn m T) = b.
Proof.
  intros Hbm Hb Hrb Hnone. apply lastb_prefix with (r := rb); [exact Hbm|exact Hb|apply busy_b_iff; exact Hrb|].
  intros j r' Hj Hn. destruct (busy_b t r') eqn:E; [|reflexivity]. exfalso.
  apply (Hnone j); [lia|]. exists r'. split; [exact Hn|]. apply busy_b_iff. exact E.
Qed.

(* what an element of the witness is *)
Lemma wit_elem m it : In (m, it) (witness' T Q) ->
  (exists t a o ra po x,
     it = (qpos T a, AOp po, ROp x) /\ a <= m /\ nth_error T a = Some ra /\ r_tid ra = t /\ r_ev ra = [EInvoke o] /\
     spec_op o = Some po /\ at_ T m (is_lp t po x) /\
     none_in T (is_inv_any t) (S a) (S m) /\ none_in T (is_ret_any t) a m /\ none_in T (is_lp_any t) a m) \/
  (exists t b sev rb q a,
     it = (qpos T b, AQry q, RQry a) /\ b < m /\ nth_error T b = Some rb /\ r_tid rb = t /\ r_ev rb = [sev] /\
     start_qry sev q /\ none_in T (busy t) (S b) m /\
     at_ T m (fun r => r_tid r = t /\ resp_ev (r_ev r) a /\ r_lp r = None)).
Proof.
  intros Hin. apply wit_in in Hin. destruct Hin as (r & Hm & Hw).
  assert (Hlpcase : match r_lp r with
                    | Some (po, x) => Some (qpos T (lastb (inv_b (r_tid r)) (firstn (S m) T)), AOp po, ROp x)
                    | None => None
                    end = Some it ->
          exists t a o ra po x,
            it = (qpos T a, AOp po, ROp x) /\ a <= m /\ nth_error T a = Some ra /\ r_tid ra = t /\
            r_ev ra = [EInvoke o] /\ spec_op o = Some po /\ at_ T m (is_lp t po x) /\
            none_in T (is_inv_any t) (S a) (S m) /\ none_in T (is_ret_any t) a m /\ none_in T (is_lp_any t) a m).
  { intros Hw'. destruct (r_lp r) as [[po x]|] eqn:Elp; [|discriminate Hw']. inversion Hw'; subst it. clear Hw'.
    assert (X : at_ T m (is_lp (r_tid r) po x)) by (exists r; split; [exact Hm|split; [reflexivity|exact Elp]]).
    destruct (HLp m (r_tid r) po x X) as (a & o & A1 & (ra & Ea & Ta & Hina) & A3 & A4 & A5 & A6).
    exists (r_tid r), a, o, ra, po, x.
    split; [|split; [exact A1|split; [exact Ea|split; [exact Ta|split;
            [apply shape_in_inv; [eapply shape_at; eauto|exact Hina]|
             split; [exact A6|split; [exact X|split; [exact A3|split; [exact A4|exact A5]]]]]]]]].
    do 3 f_equal. apply (last_inv_is a m (r_tid r) ra A1 Ea); [|exact A3]. split; [exact Ta|eauto]. }
  unfold wit_f in Hw. destruct (nth_error Q m) as [[[q a]|]|] eqn:EQ; [|left; exact (Hlpcase Hw)|left; exact (Hlpcase Hw)].
  right. inversion Hw; subst it. clear Hw Hlpcase.
  destruct (HQ m q a EQ) as (t & b & sev & Hbm & (rb & Hb & Tb & Eb) & Hsq & Hnone & Hat).
  assert (Et : r_tid r = t).
  { destruct Hat as (r' & Hm' & Tr & _). rewrite Hm in Hm'. inversion Hm'; subst r'. exact Tr. }
  exists t, b, sev, rb, q, a. split; [|repeat (split; [assumption|]); exact Hat].
  do 3 f_equal. rewrite Et. apply (last_busy_is b m t rb Hbm Hb); [|exact Hnone].
  split; [exact Tb|]. rewrite Eb. discriminate.
Qed.

(* every element of the witness starts at a record with exactly one event, not after its own record *)
Lemma wit_start m it : In (m, it) (witness' T Q) ->
  exists s rs sev, i_start it = qpos T s /\ s <= m /\ nth_error T s = Some rs /\ r_ev rs = [sev].
Proof.
  intros Hin. destruct (wit_elem m it Hin)
    as [(t & a & o & ra & po & x & -> & A1 & Ea & _ & Eva & _)|(t & b & sev & rb & q & a & -> & B1 & Eb & _ & Evb & _)].
  - exists a, ra, (EInvoke o). cbn [i_start fst]. auto.
  - exists b, rb, sev. cbn [i_start fst]. split; [reflexivity|]. split; [lia|]. auto.
Qed.

(* ---- (a) ---- *)
Theorem witness_items_of_history : items_of_history h (witness T Q).
Proof.
  split.
  - unfold witness. rewrite map_map.
    apply TB_HW.sorted_nodup with (R := fun u v : nat * item => fst u < fst v); [apply TB_HW.ifilter_sorted|].
    intros [m1 it1] [m2 it2] H1 H2 Hlt Heq. cbn [fst snd] in *.
    destruct (wit_elem m1 it1 H1)
      as [(t1 & a1 & o1 & ra1 & po1 & x1 & -> & A1 & Ea1 & Ta1 & Eva1 & Hop1 & X1 & I1 & J1 & L1)
         |(t1 & b1 & sev1 & rb1 & q1 & c1 & -> & B1 & Eb1 & Tb1 & Evb1 & Hsq1 & N1 & Y1)];
    destruct (wit_elem m2 it2 H2)
      as [(t2 & a2 & o2 & ra2 & po2 & x2 & -> & A2 & Ea2 & Ta2 & Eva2 & Hop2 & X2 & I2 & J2 & L2)
         |(t2 & b2 & sev2 & rb2 & q2 & c2 & -> & B2 & Eb2 & Tb2 & Evb2 & Hsq2 & N2 & Y2)];
    cbn [i_start fst] in Heq.
    + (* two point operations of the same call *)
      assert (Ea : a1 = a2).
      { apply Nat.le_antisymm;
          [apply (qpos_le K V T a1 a2 ra1 ra2 0 0)|apply (qpos_le K V T a2 a1 ra2 ra1 0 0)];
          try assumption; try (rewrite Eva1; simpl; lia); try (rewrite Eva2; simpl; lia); lia. }
      subst a2. rewrite Ea1 in Ea2. inversion Ea2; subst ra2. rewrite Ta1 in Ta2. subst t2.
      apply (L2 m1); [lia|]. destruct X1 as (r & Hr & Et & Elp). exists r. split; [exact Hr|].
      split; [exact Et|]. rewrite Elp. discriminate.
    + (* a point operation and a query *)
      assert (Ea : a1 = b2).
      { apply Nat.le_antisymm;
          [apply (qpos_le K V T a1 b2 ra1 rb2 0 0)|apply (qpos_le K V T b2 a1 rb2 ra1 0 0)];
          try assumption; try (rewrite Eva1; simpl; lia); try (rewrite Evb2; simpl; lia); lia. }
      subst b2. rewrite Ea1 in Eb2. inversion Eb2; subst rb2. rewrite Eva1 in Evb2. inversion Evb2; subst sev2.
      exact (start_qry_not_op _ _ _ _ Hsq2 eq_refl Hop1).
    + assert (Ea : b1 = a2).
      { apply Nat.le_antisymm;
          [apply (qpos_le K V T b1 a2 rb1 ra2 0 0)|apply (qpos_le K V T a2 b1 ra2 rb1 0 0)];
          try assumption; try (rewrite Evb1; simpl; lia); try (rewrite Eva2; simpl; lia); lia. }
      subst a2. rewrite Eb1 in Ea2. inversion Ea2; subst ra2. rewrite Evb1 in Eva2. inversion Eva2; subst sev1.
      exact (start_qry_not_op _ _ _ _ Hsq1 eq_refl Hop2).
    + (* two queries with the same start event *)
      assert (Ea : b1 = b2).
      { apply Nat.le_antisymm;
          [apply (qpos_le K V T b1 b2 rb1 rb2 0 0)|apply (qpos_le K V T b2 b1 rb2 rb1 0 0)];
          try assumption; try (rewrite Evb1; simpl; lia); try (rewrite Evb2; simpl; lia); lia. }
      subst b2. rewrite Eb1 in Eb2. inversion Eb2; subst rb2. rewrite Tb1 in Tb2. subst t2.
      apply (N2 m1); [lia|]. destruct Y1 as (r & Hr & Et & Hresp & _). exists r. split; [exact Hr|].
      split; [exact Et|eapply resp_ev_nonnil; eauto].
  - intros it Hit. unfold witness in Hit. apply in_map_iff in Hit. destruct Hit as ([m it'] & E & Hin).
    cbn [snd] in E. subst it'.
    destruct (wit_elem m it Hin)
      as [(t & a & o & ra & po & x & -> & A1 & Ea & Ta & Eva & Hop & _)
         |(t & b & sev & rb & q & c & -> & B1 & Eb & Tb & Evb & Hsq & _)]; cbn [i_start i_act fst snd].
    + apply (St_op K V h _ t o po); [|exact Hop]. unfold h. rewrite (hist_event0 K V T a ra _ Ea Eva), Ta. reflexivity.
    + pose proof (hist_event0 K V T b rb _ Eb Evb) as Hev. rewrite Tb in Hev.
      destruct Hsq as [(k & cnt & -> & ->)|(e0 & -> & ->)].
      * apply (St_step K V h _ t). apply (SS_first K V h _ t k cnt). exact Hev.
      * apply (St_step K V h _ t). apply (SS_next K V h _ t e0). exact Hev.
Qed.

(* ---- (b) ---- *)
Theorem witness_complete : complete_q h (witness T Q).
Proof.
  intros pa pn c r Hc. destruct Hc as [t o po x Ha Hop Hn Hnext|t q r Hst Hrs Hnext].
  - (* a completed point operation *)
    destruct (hist_inv K V T pa _ Ha) as (a & ra & ia & eva & Ea & Eia & Eqa & Pa).
    destruct eva as [o'|r'|e'|]; simpl in Eqa; try discriminate Eqa. inversion Eqa as [[Ta Eo]]. subst o'. clear Eqa.
    destruct (shape_inv_ev ra ia o (shape_at _ _ Ea) Eia) as [-> Eva]. rewrite Nat.add_0_r in Pa.
    destruct (hist_inv K V T pn _ Hn) as (n & rn & i_n & evn & En & Ein & Eqn & Pn).
    destruct evn as [o'|r'|e'|]; simpl in Eqn; try discriminate Eqn. inversion Eqn as [[Tn Er]]. subst r'. clear Eqn.
    assert (Hretn : In (EReturn (ores_of_obs K x)) (r_ev rn)) by (eapply nth_error_In; eauto).
    assert (X : at_ T n (is_ret t (ores_of_obs K x))).
    { exists rn. split; [exact En|]. split; [symmetry; exact Tn|exact Hretn]. }
    destruct (HG n t _ X) as (a' & o' & (W1 & (ra' & Ea' & Ta' & Hin') & W3 & W4) & HL).
    pose proof (shape_in_inv ra' o' (shape_at _ _ Ea') Hin') as Eva'.
    destruct Hnext as [Hlt Hquiet].
    assert (Han : a <= n).
    { subst pa pn. destruct (qpos_lt K V T a n ra rn 0 i_n Ea ltac:(rewrite Eva; simpl; lia) En (nth_lt _ _ _ Ein))
        as [H|[H _]]; lia. }
    assert (Ea'a : a' = a).
    { destruct (Nat.lt_trichotomy a a') as [H|[H|H]]; [exfalso|symmetry; exact H|exfalso].
      - (* an invocation of t strictly between a and n *)
        assert (Hne : a' <> n).
        { intros ->. rewrite En in Ea'. inversion Ea'; subst ra'. rewrite Eva' in Hretn.
          destruct Hretn as [Hx|[]]. discriminate Hx. }
        assert (Ha'n : a' < n) by lia.
        apply (Hquiet (qpos T a') (qhev_of (r_tid ra') (EInvoke o'))).
        + subst pa pn. split; [eapply qpos_next1; eauto|].
          pose proof (qpos_next1 K V T a' n ra' _ Ha'n Ea' Eva'). lia.
        + apply hist_event0; assumption.
        + rewrite qhev_tid. exact Ta'.
      - apply (W3 a); [lia|]. exists ra. split; [exact Ea|]. split; [symmetry; exact Ta|].
        exists o. rewrite Eva. left. reflexivity. }
    subst a'. rewrite Ea in Ea'. inversion Ea'; subst ra'. rewrite Eva in Eva'. inversion Eva'; subst o'.
    destruct (HL (spec_op_not_scan o po Hop))
      as (m & po' & x' & ((M1 & M2) & (rm & Em & Tm & Lm) & M4 & M5) & Hop' & Hres).
    rewrite Hop in Hop'. inversion Hop'; subst po'. apply ores_of_obs_inj in Hres. subst x'.
    unfold witness. apply in_map_iff. exists (m, (pa, AOp po, ROp x)). split; [reflexivity|].
    apply wit_in. exists rm. split; [exact Em|]. unfold wit_f.
    assert (Hstart : qpos T (lastb (inv_b (r_tid rm)) (firstn (S m) T)) = pa).
    { rewrite Tm. rewrite (last_inv_is a m t ra M1 Ea); [symmetry; exact Pa| |].
      - split; [symmetry; exact Ta|]. exists o. rewrite Eva. left. reflexivity.
      - eapply none_in_weaken; [| |exact W3]; lia. }
    destruct (nth_error Q m) as [[[q0 a0]|]|] eqn:EQ.
    + exfalso. destruct (HQ m q0 a0 EQ) as (_ & _ & _ & _ & _ & _ & _ & (r' & Em' & _ & _ & Hnolp)).
      rewrite Em in Em'. inversion Em'; subst r'. rewrite Lm in Hnolp. discriminate Hnolp.
    + rewrite Lm, Hstart. reflexivity.
    + rewrite Lm, Hstart. reflexivity.
  - (* a Scan step with a response *)
    destruct Hnext as [Hlt Hquiet].
    (* the record of the response *)
    assert (Hn : exists n rn, nth_error T n = Some rn /\ r_tid rn = t /\ pn = qpos T n /\
                   existsb is_scan_ev (r_ev rn) = true /\
                   (forall a', resp_ev (r_ev rn) a' -> a' = r)).
    { destruct Hrs as [e Hn|Hn];
        destruct (hist_inv K V T pn _ Hn) as (n & rn & i_n & evn & En & Ein & Eqn & Pn);
        destruct evn as [o'|r'|e'|]; simpl in Eqn; try discriminate Eqn; inversion Eqn as [Tn]; subst.
      - destruct (shape_pair_ev rn i_n e' (shape_at _ _ En) Ein) as [-> Evn]. rewrite Nat.add_0_r.
        exists n, rn. split; [exact En|]. split; [reflexivity|]. split; [reflexivity|].
        split; [rewrite Evn; reflexivity|].
        rewrite Evn. intros a' [(e2 & E2 & ->)|(r2 & E2 & _)]; [inversion E2; reflexivity|discriminate E2].
      - destruct (shape_end_ev rn i_n (shape_at _ _ En) Ein) as [-> [x Evn]]. rewrite Nat.add_0_r.
        exists n, rn. split; [exact En|]. split; [reflexivity|]. split; [reflexivity|].
        split; [rewrite Evn; reflexivity|].
        rewrite Evn. intros a' [(e2 & E2 & _)|(r2 & E2 & ->)]; [discriminate E2|reflexivity]. }
    destruct Hn as (n & rn & En & Tn & Pn & Hscan & Hans).
    destruct (proj2 HA n rn En Hscan) as ([q' a'] & EQ).
    destruct (HQ n q' a' EQ) as (t' & b & sev & Hbn & (rb & Eb & Tb & Evb) & Hsq & Hnone & (rn' & En' & Tn' & Hresp & _)).
    rewrite En in En'. inversion En'; subst rn'.
    assert (Et' : t' = t) by congruence. rewrite Et' in Tb, Hnone. clear Et' Tn'.
    pose proof (Hans a' Hresp) as Ea'. subst a'.
    (* the record of the start event *)
    assert (Ha : exists a ra eva, nth_error T a = Some ra /\ r_tid ra = t /\ r_ev ra = [eva] /\ pa = qpos T a /\
                   (forall q0, start_qry eva q0 -> q0 = q)).
    { destruct Hst as [k cnt Ha|e0 Ha];
        destruct (hist_inv K V T pa _ Ha) as (a & ra & ia & eva & Ea & Eia & Eqa & Pa);
        destruct eva as [o'|r'|e'|]; simpl in Eqa; try discriminate Eqa; inversion Eqa as [Ta]; subst.
      - destruct (shape_inv_ev ra ia _ (shape_at _ _ Ea) Eia) as [-> Eva]. rewrite Nat.add_0_r.
        exists a, ra, (EInvoke (CScan k cnt)). split; [exact Ea|]. split; [reflexivity|]. split; [exact Eva|].
        split; [reflexivity|].
        intros q0 [(k2 & cnt2 & E2 & ->)|(e2 & E2 & _)]; [inversion E2; reflexivity|discriminate E2].
      - destruct (shape_pair_ev ra ia _ (shape_at _ _ Ea) Eia) as [-> Eva]. rewrite Nat.add_0_r.
        exists a, ra, (EPair e'). split; [exact Ea|]. split; [reflexivity|]. split; [exact Eva|].
        split; [reflexivity|].
        intros q0 [(k2 & cnt2 & E2 & _)|(e2 & E2 & ->)]; [discriminate E2|inversion E2; reflexivity]. }
    destruct Ha as (a & ra & eva & Ea & Ta & Eva & Pa & Hqry).
    assert (Han : a < n).
    { subst pa pn. destruct (qpos_lt K V T a n ra rn 0 0 Ea ltac:(rewrite Eva; simpl; lia) En) as [H|[_ H]]; try lia.
      destruct (r_ev rn); [discriminate Hscan|simpl; lia]. }
    assert (Eab : a = b).
    { destruct (Nat.lt_trichotomy a b) as [H|[H|H]]; [exfalso|exact H|exfalso].
      - apply (Hquiet (qpos T b) (qhev_of (r_tid rb) sev)).
        + subst pa pn. split; eapply qpos_next1; eauto.
        + apply hist_event0; assumption.
        + rewrite qhev_tid. exact Tb.
      - apply (Hnone a); [lia|]. exists ra. split; [exact Ea|]. split; [exact Ta|]. rewrite Eva. discriminate. }
    subst b. rewrite Ea in Eb. inversion Eb; subst rb. rewrite Eva in Evb. inversion Evb; subst sev.
    pose proof (Hqry q' Hsq) as Eq. subst q'.
    unfold witness. apply in_map_iff. exists (n, (pa, AQry q, RQry r)). split; [reflexivity|].
    apply wit_in. exists rn. split; [exact En|]. unfold wit_f. rewrite EQ. do 3 f_equal.
    rewrite Tn, Pa. f_equal. apply (last_busy_is a n t ra Han Ea); [|exact Hnone].
    split; [exact Ta|]. rewrite Eva. discriminate.
Qed.

(* ---- (d) ---- *)
(* the interval of an element of the witness does not end before the record at which the element is placed *)
Lemma wit_end m it n c r : In (m, it) (witness' T Q) -> completed_q h (i_start it) n c r ->
  exists N rN iN, nth_error T N = Some rN /\ iN < length (r_ev rN) /\ n = qpos T N + iN /\ m <= N.
Proof.
  intros Hin Hc.
  destruct (wit_elem m it Hin)
    as [(t & a & o & ra & po & x & -> & A1 & Ea & Ta & Eva & Hop & X & I1 & J1 & L1)
       |(t & b & sev & rb & q & c0 & -> & B1 & Eb & Tb & Evb & Hsq & N1 & Y)]; cbn [i_start fst] in Hc.
  - (* a point operation: its interval ends at the return of the call *)
    pose proof (hist_event0 K V T a ra _ Ea Eva) as Hev. fold h in Hev. simpl in Hev.
    destruct Hc as [t' o' po' x' Ha' Hop' Hn' [Hlt _]|t' q' r' Hst _ _].
    + rewrite Hev in Ha'. inversion Ha'; subst t' o'.
      destruct (hist_inv K V T n _ Hn') as (N & rN & iN & evN & EN & EiN & EqN & PN).
      destruct evN as [o'|r'|e'|]; simpl in EqN; try discriminate EqN. inversion EqN as [[TN Er]]. subst r'.
      exists N, rN, iN. split; [exact EN|]. split; [exact (nth_lt _ _ _ EiN)|]. split; [exact PN|].
      destruct (Nat.le_gt_cases m N) as [H|H]; [exact H|]. exfalso.
      assert (HaN : a <= N).
      { subst n. apply (qpos_le K V T a N ra rN 0 iN Ea ltac:(rewrite Eva; simpl; lia) EN (nth_lt _ _ _ EiN)). lia. }
      apply (J1 N); [lia|]. exists rN. split; [exact EN|]. split; [congruence|].
      exists (ores_of_obs K x'). eapply nth_error_In; eauto.
    + exfalso. destruct Hst as [k cnt Ha'|e0 Ha']; rewrite Hev in Ha'; inversion Ha'; subst. discriminate Hop.
  - (* a query: its interval ends at the next event of the thread *)
    pose proof (hist_event0 K V T b rb _ Eb Evb) as Hev. fold h in Hev.
    destruct Hc as [t' o' po' x' Ha' Hop' _ _|t' q' r' Hst Hrs [Hlt _]].
    + exfalso. rewrite Hev in Ha'. destruct sev as [o2|r2|e2|]; simpl in Ha'; try discriminate Ha'.
      inversion Ha'; subst. exact (start_qry_not_op _ _ _ _ Hsq eq_refl Hop').
    + assert (Et : t' = t).
      { destruct Hst as [k cnt Ha'|e0 Ha']; rewrite Hev in Ha';
          destruct sev as [o2|r2|e2|]; simpl in Ha'; try discriminate Ha'; inversion Ha'; congruence. }
      subst t'.
      assert (HN : exists N rN iN evN, nth_error T N = Some rN /\ nth_error (r_ev rN) iN = Some evN /\
                     r_tid rN = t /\ n = qpos T N + iN).
      { destruct Hrs as [e Hn'|Hn'];
          destruct (hist_inv K V T n _ Hn') as (N & rN & iN & evN & EN & EiN & EqN & PN);
          destruct evN as [o'|r2|e'|]; simpl in EqN; try discriminate EqN; inversion EqN; subst; eauto 10. }
      destruct HN as (N & rN & iN & evN & EN & EiN & TN & PN).
      exists N, rN, iN. split; [exact EN|]. split; [exact (nth_lt _ _ _ EiN)|]. split; [exact PN|].
      destruct (Nat.le_gt_cases m N) as [H|H]; [exact H|]. exfalso.
      assert (HbN : b < N).
      { subst n. destruct (qpos_lt K V T b N rb rN 0 iN Eb ltac:(rewrite Evb; simpl; lia) EN (nth_lt _ _ _ EiN))
          as [H'|[-> H']]; [lia|exact H'|].
        rewrite Eb in EN. inversion EN; subst rN. rewrite Evb in EiN. destruct iN as [|iN]; [lia|].
        destruct iN; discriminate EiN. }
      apply (N1 N); [lia|]. exists rN. split; [exact EN|]. split; [exact TN|].
      intros E. rewrite E in EiN. destruct iN; discriminate EiN.
Qed.

Theorem witness_rt : respects_rt_q h (witness T Q).
Proof.
  intros S1 e2 S2 e1 HS Hin (n1 & c & r & Hc & Hle).
  unfold witness in HS. apply map_eq_app in HS. destruct HS as (l1 & l2 & El & _ & El2).
  apply map_eq_cons in El2. destruct El2 as ([m2 e2'] & tl & -> & Ee2 & Etl). cbn [snd] in Ee2. subst e2'.
  rewrite <- Etl in Hin. apply in_map_iff in Hin. destruct Hin as ([m1 e1'] & Ee1 & Hin1). cbn [snd] in Ee1. subst e1'.
  pose proof (TB_HW.ifilter_sorted (wit_f T Q) T 0) as Hsorted. fold (witness' T Q) in Hsorted. rewrite El in Hsorted.
  apply TB_HW.sorted_split in Hsorted. rewrite Forall_forall in Hsorted. specialize (Hsorted _ Hin1).
  cbn [fst] in Hsorted.
  assert (H1 : In (m1, e1) (witness' T Q)) by (rewrite El; apply in_or_app; right; right; exact Hin1).
  assert (H2 : In (m2, e2) (witness' T Q)) by (rewrite El; apply in_or_app; right; left; reflexivity).
  destruct (wit_end m1 e1 n1 c r H1 Hc) as (N & rN & iN & EN & LN & PN & HmN).
  destruct (wit_start m2 e2 H2) as (s2 & rs2 & sev2 & Es2 & Hs2 & Ers2 & Evs2).
  rewrite Es2 in Hle. subst n1.
  assert (HNs : N <= s2).
  { apply (qpos_le K V T N s2 rN rs2 iN 0 EN LN Ers2 ltac:(rewrite Evs2; simpl; lia)). lia. }
  lia.
Qed.

Theorem trace_linearizable_q :
  snd (run_q ltb [] (map fst (items_of T Q))) = map snd (items_of T Q) -> linearizable_q ltb h.
Proof.
  intros Hlegal. exists (witness T Q).
  split; [exact witness_items_of_history|]. split; [exact witness_complete|].
  split; [apply witness_legal; [exact (proj1 HA)|exact Hlegal]|exact witness_rt].
Qed.

End Main.
End QWitness.

Arguments witness {K V} T Q.

(* ================================================================================================ *)
(* the closed theorems                                                                               *)
(* ================================================================================================ *)
Section QFinal.
Variables (K V : Type) (ltb : K -> K -> bool).
Hypothesis HS : SWO ltb.
Variable order : nat.
Hypothesis Heven : Nat.even order = true.
Hypothesis H4 : 4 <= order.

(* the history WITH SCAN STEPS of every execution is linearizable with respect to the ideal map of Spec.v extended
   with the atomic successor queries QFirst / QNext *)
Theorem scan_history_linearizable : forall (progs : list (tid * list (cop K V))) sched,
  NoDup (map fst progs) ->
  linearizable_q ltb (qhistory_of (itrace ltb order (iinit progs) sched)).
Proof.
  intros progs sched Hnd.
  destruct (SInv_reach K V ltb HS order Heven H4 progs Hnd sched) as ((HG & _ & _ & _ & HLp & HSh) & (_ & HQ & HA)).
  apply (trace_linearizable_q K V ltb _ (qtrace ltb order (iinit progs) sched)); try assumption.
  exact (legal_q_history K V ltb order progs sched).
Qed.

(* ... and the witness is the list of linearization points and answered queries in trace order, whose final map is
   the tree's *)
Theorem scan_history_linearizable_witness : forall (progs : list (tid * list (cop K V))) sched,
  NoDup (map fst progs) ->
  let tr := itrace ltb order (iinit progs) sched in
  let S := witness tr (qtrace ltb order (iinit progs) sched) in
  items_of_history (qhistory_of tr) S /\ complete_q (qhistory_of tr) S /\ seq_legal_q ltb S /\
  respects_rt_q (qhistory_of tr) S /\
  fst (run_q ltb [] (map i_act S)) = abs ltb (is_st (iexec ltb order (iinit progs) sched)).
Proof.
  intros progs sched Hnd tr S.
  destruct (SInv_reach K V ltb HS order Heven H4 progs Hnd sched) as ((HG & _ & _ & _ & HLp & HSh) & (_ & HQ & HA)).
  fold tr in HG, HLp, HSh, HQ, HA.
  pose proof (legal_q_history K V ltb order progs sched) as Hleg. fold tr in Hleg.
  split; [apply witness_items_of_history; assumption|]. split; [apply witness_complete; assumption|].
  split; [apply witness_legal; [exact (proj1 HA)|exact Hleg]|]. split; [apply witness_rt; assumption|].
  pose proof (run_q_trace K V ltb order sched (iinit progs)) as Hrun.
  change (is_abs (iinit progs)) with (@nil (K * V)) in Hrun. fold tr in Hrun.
  assert (E : map i_act S = map fst (items_of tr (qtrace ltb order (iinit progs) sched))).
  { rewrite <- (witness_items K V tr _ (proj1 HA)). rewrite map_map. reflexivity. }
  rewrite E, Hrun. cbn [fst].
  apply (Reach_abs K V ltb HS order Heven H4 progs Hnd). exists sched. reflexivity.
Qed.

End QFinal.

(* SUMMARY.  Everything is proved; no axioms (both "Closed under the global context").
   Files, in dependency order: TBs_Lists.v (fpos: positions in a flattened list whose pieces have any length; lastb),
   TBs_Def.v (definitions: hev, qhistory_of, qry / first_ge / first_gt / qry_ans, act / ans / step_q / run_q, item,
   next_ev, step_start, step_resp, starts, completed_q, items_of_history, complete_q, seq_legal_q, precedes_q,
   respects_rt_q, linearizable_q), TBs_Spec.v (first_ge / first_gt answer the LEAST member not below k / above k0 of
   a strictly sorted association list, both directions), TBs_Sanity.v (concurrent_scan_linearizable: a history with a
   scan concurrent with inserts is accepted; task_history_not_linearizable: the history of the task statement is
   rejected), TBs_Trace.v (annotation istep_q / qtrace of the Scan-step records, run_q_trace, istep_q_spec, the trace
   invariant SInv and SInv_reach), TBs_Proof.v (this file).

   Premises: SWO ltb, Nat.even order = true, 4 <= order;  for every progs with NoDup (map fst progs) and EVERY sched:
     scan_history_linearizable :
       linearizable_q ltb (qhistory_of (itrace ltb order (iinit progs) sched))
     scan_history_linearizable_witness : with tr := itrace ltb order (iinit progs) sched and
       S := witness tr (qtrace ltb order (iinit progs) sched),
       items_of_history (qhistory_of tr) S /\ complete_q (qhistory_of tr) S /\ seq_legal_q ltb S /\
       respects_rt_q (qhistory_of tr) S /\
       fst (run_q ltb [] (map i_act S)) = abs ltb (is_st (iexec ltb order (iinit progs) sched))
     trace_linearizable_q (generic) : Shape T -> Good T -> LpOk T -> QOk T Q -> QAll T Q -> legal run of items_of T Q ->
       linearizable_q ltb (qhistory_of T)
   The witness: one item per record of the trace that is a linearization point (AOp po with the specification's
   answer, start = history position of the last invocation of the thread: exactly the witness of TB_HW.v) or that
   emits EPair e / EScanEnd (AQry q with the specification's answer to q on its current map, start = history position
   of the last event of the thread before the record: the NewScanner invocation for q = QFirst k, the previous pair
   e0 for q = QNext (fst e0)), in trace order.
   Where the facts come from:
     (c) legality is by construction (run_q_trace, as run_spec_trace in TB_Trace.v);
     the recorded answer of a query item equals the response in the history (istep_q_spec): is_abs = abs of the
       state (Final.final_linearizable via iexec_abs), abs is not changed by the step and e is the least stored pair
       >= k (C4c_Closed.first_step_atomic) / the least stored pair above the previous one (C4_Final.C04_successor);
       at EScanEnd nothing stored is >= k / above the last pair (C04_end_first / C04_end_after); abs is strictly
       sorted (C4_Trace.abs_SS), so these are the answers of first_ge / first_gt (TBs_Spec.v);
     (a), (b), (d) use only trace invariants: Good, LpOk, Shape of TB_Link.v for point operations, and QOk / QAll of
       TBs_Trace.v for Scan steps (the start event of an annotated record is the last event of its thread before
       it), plus the position lemmas of TBs_Lists.v (a record with [EScanEnd; EReturn r] contributes TWO history
       events, so TB_HW.pos, which needs at most one event per record, is replaced by fpos);
     (d): the witness position of an item is a record inside its own interval (wit_start: not before the interval's
       start record; wit_end: not after the record of the interval's end), so interval precedence implies record
       order.  precedes_q uses n1 <= a2: equality happens exactly for step j and step j+1 of one scan, which share
       the HPair event, and then the two items are at different records in the right order.
   Nothing remains. *)

Print Assumptions scan_history_linearizable_witness.
Print Assumptions scan_history_linearizable.

(* TG_Stuck.v — C06, global form, part 2: AN EXECUTION THAT CANNOT BE EXTENDED HAS RETURNED EVERY CALL.
   In a reachable state in which no thread can take a step, every thread is Idle with an empty program
   (no deadlock + no crash), and the number of return steps of every thread in the history equals the length of its
   program: every call of every program was invoked and has returned. *)
From Coq Require Import List Bool Lia PeanoNat.
From GB Require Import Model Inv Conc GI LockInv LockProof CIDef SoloBase LinDef Lin LINc_Blocks LINc_Proof
  ASM_Proof PCc_Proof NoDeadlock Final CB_Blocks CB_Count TERM_Proof TG_Finite.
Import ListNotations.

Section Stuck.
Variables (K V : Type) (ltb : K -> K -> bool).
Notation st := (st K V).
Notation out := (out K V).
Notation pc := (pc K V).
Notation cop := (cop K V).
Notation thread := (thread K V).
Notation event := (event K V).

Variable order : nat.

(* no thread of s can take a step *)
Definition stuck (s : st) : Prop := forall t s' acq ev, cstep ltb order s t <> Stepped s' acq ev.
(* every thread of s has finished its program and is between calls *)
Definition done (s : st) : Prop := forall t th, get_thread t (ths s) = Some th -> tpc th = Idle /\ prog th = [].

(* ------------------------------------------------------------------------------------------------ *)
(* state-level facts (no invariant needed)                                                            *)
(* ------------------------------------------------------------------------------------------------ *)
Lemma blk_none (s : st) me (th : thread) tg :
  blk ltb order s me th tg = Ok None -> tpc th = Idle /\ prog th = [].
Proof.
  intros H. unfold blk in H. cbv zeta in H.
  destruct (tpc th) as [ |o|o r|o l r|o p c i|o p c r|o leaf mode i|o p c|o stk|o stk|o stk|leaf i n acc|leaf nxt n acc].
  - destruct (prog th) as [|o rest]; [split; reflexivity|]. unfold mk in H. cbn [bind] in H. discriminate H.
  - match type of H with bind ?e _ = _ => destruct e as [r0|]; [cbn [bind] in H|]; discriminate H end.
  - match type of H with bind ?e _ = _ => destruct e as [r0|]; [cbn [bind] in H|]; discriminate H end.
  - match type of H with bind ?e _ = _ => destruct e as [r0|]; [cbn [bind] in H|]; discriminate H end.
  - match type of H with bind ?e _ = _ => destruct e as [r0|]; [cbn [bind] in H|]; discriminate H end.
  - match type of H with bind ?e _ = _ => destruct e as [r0|]; [cbn [bind] in H|]; discriminate H end.
  - match type of H with bind ?e _ = _ => destruct e as [r0|]; [cbn [bind] in H|]; discriminate H end.
  - match type of H with bind ?e _ = _ => destruct e as [r0|]; [cbn [bind] in H|]; discriminate H end.
  - match type of H with bind ?e _ = _ => destruct e as [r0|]; [cbn [bind] in H|]; discriminate H end.
  - match type of H with bind ?e _ = _ => destruct e as [r0|]; [cbn [bind] in H|]; discriminate H end.
  - match type of H with bind ?e _ = _ => destruct e as [r0|]; [cbn [bind] in H|]; discriminate H end.
  - match type of H with bind ?e _ = _ => destruct e as [r0|]; [cbn [bind] in H|]; discriminate H end.
  - match type of H with bind ?e _ = _ => destruct e as [r0|]; [cbn [bind] in H|]; discriminate H end.
Qed.

(* an enabled thread steps (or crashes) *)
Lemma enabled_steps (s : st) t :
  enabled order s t = true ->
  (exists s' acq ev, cstep ltb order s t = Stepped s' acq ev) \/ (exists p, cstep ltb order s t = Crash p).
Proof.
  intros H. unfold enabled in H.
  destruct (get_thread t (ths s)) as [th|] eqn:Hg; [|discriminate H].
  assert (HH : ~ (tpc th = Idle /\ prog th = []) /\
               match target s (tpc th) with Ok tg => is_free s tg | Panic _ => true end = true).
  { destruct (tpc th); destruct (prog th); try discriminate H;
      (split; [intros [A B]; try discriminate A; discriminate B|exact H]). }
  destruct HH as [Hnf HX].
  rewrite cstep_eq, Hg.
  destruct (target s (tpc th)) as [tg|p]; [|right; exists p; reflexivity].
  rewrite HX. cbn [negb].
  destruct (blk ltb order s t th tg) as [[o|]|p] eqn:Hb.
  - left. eexists _, _, _. reflexivity.
  - exfalso. apply Hnf. exact (blk_none s t th tg Hb).
  - right. exists p. reflexivity.
Qed.

Lemma not_unfinished (s : st) t th :
  unfinished s t = false -> get_thread t (ths s) = Some th -> tpc th = Idle /\ prog th = [].
Proof.
  intros H Hg. unfold unfinished in H. rewrite Hg in H.
  destruct (tpc th); destruct (prog th); try discriminate H. split; reflexivity.
Qed.

(* conversely: when every thread is done, nothing can step *)
Lemma done_stuck (s : st) : done s -> stuck s.
Proof.
  intros Hd t s' acq ev Hc.
  destruct (cstep_unpack K V ltb order s s' t acq ev Hc) as (th & o & Hg & Hb & _).
  destruct (Hd t th Hg) as [Hi Hp].
  unfold blk in Hb. cbv zeta in Hb. rewrite Hi, Hp in Hb. discriminate Hb.
Qed.

Lemma exec_thread_ids : forall sched (s : st),
  map fst (ths (fst (exec ltb order s sched))) = map fst (ths s).
Proof.
  induction sched as [|u rest IH]; intros s; [reflexivity|].
  rewrite exec_cons. destruct (cstep ltb order s u) as [ | | |s1 acq ev|p] eqn:Hc; try reflexivity.
  cbn [fst]. rewrite IH. exact (step_thread_ids K V ltb order s s1 u acq ev Hc).
Qed.

(* ------------------------------------------------------------------------------------------------ *)
(* reachable states                                                                                   *)
(* ------------------------------------------------------------------------------------------------ *)
Hypothesis HS : SWO ltb.
Hypothesis Heven : Nat.even order = true.
Hypothesis H4 : 4 <= order.
Variable progs : list (tid * list cop).
Hypothesis Hnd : NoDup (map fst progs).

(* (G2) *)
Theorem stuck_means_done : forall sched,
  let s := fst (exec ltb order (init_st progs) sched) in
  (forall t s' acq ev, cstep ltb order s t <> Stepped s' acq ev) ->
  forall t th, get_thread t (ths s) = Some th -> tpc th = Idle /\ prog th = [].
Proof.
  intros sched s Hstuck t th Hg.
  destruct (unfinished s t) eqn:Hu; [|exact (not_unfinished s t th Hu Hg)].
  exfalso.
  destruct (final_no_deadlock K V ltb HS order Heven H4 progs sched Hnd (ex_intro _ t Hu)) as [u Hen].
  fold s in Hen.
  destruct (enabled_steps s u Hen) as [(s' & acq & ev & Hc)|(p & Hc)].
  - exact (Hstuck u s' acq ev Hc).
  - exact (final_no_crash K V ltb HS order Heven H4 progs sched u p Hnd Hc).
Qed.

(* the same, over the thread table *)
Corollary stuck_means_done_all : forall sched,
  let s := fst (exec ltb order (init_st progs) sched) in
  stuck s -> Forall (fun e => tpc (snd e) = Idle /\ prog (snd e) = []) (ths s).
Proof.
  intros sched s Hstuck. apply Forall_forall. intros [t th] Hin. cbn [snd].
  apply (stuck_means_done sched Hstuck t th).
  apply tg_in_get_thread; [|exact Hin].
  unfold s. rewrite exec_thread_ids. unfold init_st. cbn [ths]. rewrite map_map. cbn [fst]. exact Hnd.
Qed.

(* stuck <-> done in reachable states *)
Corollary stuck_iff_done : forall sched,
  let s := fst (exec ltb order (init_st progs) sched) in stuck s <-> done s.
Proof.
  intros sched s. split; [intros H; exact (stuck_means_done sched H)|apply done_stuck].
Qed.

(* in a reachable state that is not stuck-and-done, some thread CAN step: the execution can be extended *)
Corollary not_done_can_step : forall sched,
  let s := fst (exec ltb order (init_st progs) sched) in
  (exists t, unfinished s t = true) -> exists u s' acq ev, cstep ltb order s u = Stepped s' acq ev.
Proof.
  intros sched s Hu.
  destruct (final_no_deadlock K V ltb HS order Heven H4 progs sched Hnd Hu) as [u Hen]. fold s in Hen.
  destruct (enabled_steps s u Hen) as [(s' & acq & ev & Hc)|(p & Hc)].
  - exists u, s', acq, ev. exact Hc.
  - exfalso. exact (final_no_crash K V ltb HS order Heven H4 progs sched u p Hnd Hc).
Qed.

(* every call of every program has returned: the history contains exactly one return step of t per call of t's
   program *)
Theorem stuck_all_returned : forall sched,
  let s := fst (exec ltb order (init_st progs) sched) in
  stuck s ->
  forall p, In p progs -> ret_steps K V (fst p) (snd (exec ltb order (init_st progs) sched)) = length (snd p).
Proof.
  intros sched s Hstuck p Hp.
  pose proof (init_thread K V progs Hnd p Hp) as Hg.
  destruct (cb_count K V ltb order sched (init_st progs) (fst p) _ (call_ok_init K V progs) Hg)
    as (th2 & pre & Hg2 & Hpr & _ & Hrs).
  destruct (stuck_means_done sched Hstuck (fst p) th2 Hg2) as [_ Hp2].
  rewrite Hp2, app_nil_r in Hpr. cbn [prog] in Hpr. subst pre. exact Hrs.
Qed.

End Stuck.

Print Assumptions stuck_means_done.
Print Assumptions stuck_all_returned.

(* KeyOrders.v — the key orders of the six tree types are strict weak orders (C11):
   integers (int32/int64/uint32/uint64 as Z with Z.ltb), strings (byte lists, lexicographic), and a Comparable
   whose equivalence is coarser than equality (pairs ordered by their first component only). *)
From Coq Require Import ZArith NArith List Bool Lia.
From GB Require Import Model Inv.
Import ListNotations.

Lemma Z_SWO : SWO Z.ltb.
Proof.
  split; intros.
  - apply Z.ltb_irrefl.
  - apply Z.ltb_lt in H, H0. apply Z.ltb_lt. lia.
  - apply Z.ltb_ge in H, H0. apply Z.ltb_ge. lia.
Qed.

(* Go's string comparison: bytewise lexicographic, a proper prefix is smaller *)
Fixpoint lex_ltb (a b : list N) : bool :=
  match a, b with
  | [], [] => false
  | [], _ :: _ => true
  | _ :: _, [] => false
  | x :: a', y :: b' => if N.ltb x y then true else if N.ltb y x then false else lex_ltb a' b'
  end.

Lemma lex_irrefl a : lex_ltb a a = false.
Proof. induction a as [|x a IH]; simpl; [reflexivity|]. rewrite N.ltb_irrefl. exact IH. Qed.

Lemma lex_trans a : forall b c, lex_ltb a b = true -> lex_ltb b c = true -> lex_ltb a c = true.
Proof.
  induction a as [|x a IH]; intros [|y b] [|z c] H1 H2; simpl in *; try discriminate; try reflexivity.
  destruct (N.ltb_spec x y), (N.ltb_spec y x), (N.ltb_spec y z), (N.ltb_spec z y), (N.ltb_spec x z), (N.ltb_spec z x);
    try lia; try discriminate; try reflexivity.
  eapply IH; eauto.
Qed.

Lemma lex_negtrans a : forall b c, lex_ltb a b = false -> lex_ltb b c = false -> lex_ltb a c = false.
Proof.
  induction a as [|x a IH]; intros [|y b] [|z c] H1 H2; simpl in *; try discriminate; try reflexivity.
  destruct (N.ltb_spec x y), (N.ltb_spec y x), (N.ltb_spec y z), (N.ltb_spec z y), (N.ltb_spec x z), (N.ltb_spec z x);
    try lia; try discriminate; try reflexivity.
  eapply IH; eauto.
Qed.

Lemma lex_SWO : SWO lex_ltb.
Proof. split; [apply lex_irrefl|intros; eapply lex_trans; eauto|intros; eapply lex_negtrans; eauto]. Qed.

(* a Comparable ordered by one field only: distinct keys may be equivalent *)
Definition fst_ltb (a b : Z * Z) : bool := Z.ltb (fst a) (fst b).
Lemma fst_SWO : SWO fst_ltb.
Proof.
  unfold fst_ltb. split; intros.
  - apply Z.ltb_irrefl.
  - apply Z.ltb_lt in H, H0. apply Z.ltb_lt. lia.
  - apply Z.ltb_ge in H, H0. apply Z.ltb_ge. lia.
Qed.
Example fst_equiv_not_eq : eqvb fst_ltb (1, 0)%Z (1, 7)%Z = true /\ (1, 0)%Z <> (1, 7)%Z.
Proof. split; [reflexivity|discriminate]. Qed.

(* the slice idiom  s = append(s, zero); copy(s[i+1:], s[i:]); s[i] = x  inserts x at i whatever zero is:
   a placeholder obtained from ZeroValue (or the literal 0 / "") is never observable *)
Lemma slice_insert_spec {A} (zero : A) i x (l : list A) : i <= length l -> slice_insert zero i x l = ins_nth i x l.
Proof.
  intros Hi. unfold slice_insert, ins_nth, set_nth.
  rewrite app_length. simpl length.
  replace (length l + 1 - S i) with (length l - i) by lia.
  assert (H1 : firstn (S i) (l ++ [zero]) = firstn i l ++ firstn 1 (skipn i (l ++ [zero]))).
  { rewrite <- (firstn_skipn i (l ++ [zero])) at 1.
    rewrite firstn_app. rewrite firstn_length. rewrite app_length. simpl length.
    replace (Nat.min i (length l + 1)) with i by lia.
    replace (S i - i) with 1 by lia.
    rewrite firstn_firstn. replace (Nat.min (S i) i) with i by lia.
    rewrite firstn_app. replace (i - length l) with 0 by lia. rewrite firstn_O, app_nil_r. reflexivity. }
  set (L2 := firstn (S i) (l ++ [zero]) ++ firstn (length l - i) (skipn i (l ++ [zero]))).
  assert (Hlen : length (firstn (S i) (l ++ [zero])) = S i).
  { rewrite firstn_length, app_length. cbn [length]. lia. }
  assert (Hf : firstn i L2 = firstn i l).
  { subst L2. rewrite firstn_app. rewrite Hlen. replace (i - S i) with 0 by lia. rewrite firstn_O, app_nil_r.
    rewrite firstn_firstn. replace (Nat.min i (S i)) with i by lia.
    rewrite firstn_app. replace (i - length l) with 0 by lia. rewrite firstn_O, app_nil_r. reflexivity. }
  assert (Hs : skipn (S i) L2 = skipn i l).
  { subst L2. rewrite skipn_app. rewrite Hlen. replace (S i - S i) with 0 by lia. simpl skipn at 2.
    rewrite (skipn_all2 (firstn (S i) (l ++ [zero]))) by lia. simpl.
    rewrite skipn_app. replace (i - length l) with 0 by lia. simpl skipn at 2.
    rewrite firstn_app. rewrite skipn_length. rewrite firstn_all2 by (rewrite skipn_length; lia).
    replace (length l - i - (length l - i)) with 0 by lia. rewrite firstn_O, app_nil_r. reflexivity. }
  rewrite Hf, Hs. reflexivity.
Qed.

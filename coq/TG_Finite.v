(* TG_Finite.v — C06, global form, part 1: EVERY EXECUTION IS FINITE.
   The number of steps an execution of a finite set of client programs can take is bounded by a number [bound progs]
   that depends on the programs only, whatever the schedule.

   Route: for every thread t the quantity
       pot P s t := measure s t + Wt P (rem s t)
   (the measure of the call in flight, TERM_Proof.measure, plus a budget [budget P o = 3 * P + 2 * slen o + 6] for every
   call still in the program of t AFTER the call in flight) strictly decreases at every step of t and does not increase
   at the steps of the other threads, as long as the potential [Phi s] is at most P (and Phi never increases).
   Hence t takes at most [pot P0 (init_st progs) t = Wt P0 (program of t)] steps, P0 := Phi (init_st progs). *)
From Coq Require Import List Bool Lia PeanoNat Permutation.
From GB Require Import Model Inv ListLemmas SearchProof TreeLemmas Conc GI LockInv LockProof CInv CIDef
  Frame UpdLemmas FrameRel FrameInv FrameBlocks FrameProof EraseLemmas SoloBase GIa2_Proof
  Lin LinDef LINb_Prog LINc_Blocks LINc_Proof ASM_Proof PCc_Proof Final TERM_Hgt TERM_Blocks TERM_Proof.
Import ListNotations.

Section Finite.
Variables (K V : Type) (ltb : K -> K -> bool).
Notation itree := (itree K V).
Notation st := (st K V).
Notation out := (out K V).
Notation pc := (pc K V).
Notation cop := (cop K V).
Notation thread := (thread K V).
Notation event := (event K V).
Notation measure := (measure K V).
Notation Phi := (Phi K V).
Notation tpc_of := (tpc_of K V).
Notation mroot := (mroot K V).
Notation steps_of := (steps_of K V).

(* ------------------------------------------------------------------------------------------------ *)
(* budgets                                                                                            *)
(* ------------------------------------------------------------------------------------------------ *)
(* the scan length of a call *)
Definition slen (o : cop) : nat := match o with CScan _ n => n | _ => 0 end.
(* the budget of one call: one invocation step plus the measure just after the invocation *)
Definition budget (P : nat) (o : cop) : nat := 3 * P + 2 * slen o + 6.
(* the budget of a list of calls *)
Definition Wt (P : nat) (l : list cop) : nat := list_sum (map (budget P) l).

Definition idle_b (p : pc) : bool := match p with Idle => true | _ => false end.

Lemma idle_b_true (p : pc) : p = Idle -> idle_b p = true.
Proof. intros ->. reflexivity. Qed.
Lemma idle_b_false (p : pc) : p <> Idle -> idle_b p = false.
Proof. destruct p; intros H; try reflexivity. congruence. Qed.

(* the calls of t that come after the call in flight (all of its program if no call is in flight) *)
Definition rem (s : st) (t : tid) : list cop :=
  match get_thread t (ths s) with
  | Some th => if idle_b (tpc th) then prog th else tl (prog th)
  | None => []
  end.

Definition pot (P : nat) (s : st) (t : tid) : nat := measure s t + Wt P (rem s t).

Lemma Wt_cons P o l : Wt P (o :: l) = budget P o + Wt P l.
Proof. reflexivity. Qed.

Lemma mroot_budget (o : cop) W P : W <= P -> S (mroot o W) + 1 <= budget P o.
Proof. intros HW. unfold budget. destruct o; cbn [TERM_Proof.mroot scan_tail slen]; lia. Qed.

Lemma measure_idle (s : st) t : tpc_of s t = Idle -> measure s t = 0.
Proof. intros H. unfold TERM_Proof.measure. rewrite H. reflexivity. Qed.

Variable order : nat.
Hypothesis HS : SWO ltb.
Hypothesis Heven : Nat.even order = true.
Hypothesis H4 : 4 <= order.

(* ------------------------------------------------------------------------------------------------ *)
(* one step                                                                                           *)
(* ------------------------------------------------------------------------------------------------ *)
(* a step of t consumes one unit of t's potential *)
Lemma own_step_pot (P : nat) (s s' : st) me acq ev :
  BigInv K V ltb order s -> Phi s <= P -> cstep ltb order s me = Stepped s' acq ev ->
  pot P s' me + 1 <= pot P s me.
Proof.
  intros HB HP Hc.
  destruct (BigInv_parts K V ltb order s HB) as (HGI & HL & HPC & HPO).
  pose proof (Phi_step K V ltb order HS H4 s s' me acq ev HB Hc) as HPhi.
  destruct (cstep_parts K V ltb order s s' me acq ev Hc) as (th & o & Hme & Etg & _ & Hb & Es' & Eev).
  destruct (commit_me K V s me th o Hme) as (th' & Hme' & Et & Ep). rewrite <- Es' in Hme'.
  unfold pot, rem. rewrite Hme, Hme'.
  destruct (idle_b (tpc th)) eqn:Eidle.
  - (* invocation *)
    assert (Hi : tpc th = Idle) by (destruct (tpc th); try discriminate Eidle; reflexivity).
    destruct (blk_idle K V ltb order s me th acq o Hi Hb) as (o1 & rest & Hp & Ho & Hev).
    assert (Hret : returned (oev o) = false) by (rewrite Hev; reflexivity).
    rewrite Hret in Ep. rewrite Et, Ho. cbn [idle_b]. rewrite Ep, Hp. cbn [tl]. rewrite Wt_cons.
    assert (Hm : measure s me = 0) by (apply measure_idle; unfold TERM_Proof.tpc_of; rewrite Hme; exact Hi).
    assert (Hm' : measure s' me = S (mroot o1 (Phi s'))).
    { unfold TERM_Proof.measure, TERM_Proof.tpc_of. rewrite Hme', Et, Ho. reflexivity. }
    assert (HW : Phi s' <= P) by lia.
    pose proof (mroot_budget o1 (Phi s') P HW). lia.
  - (* inside a call *)
    assert (Hni : tpc_of s me <> Idle).
    { unfold TERM_Proof.tpc_of. rewrite Hme. intros E. rewrite E in Eidle. discriminate Eidle. }
    destruct (returned (oev o)) eqn:Hret.
    + (* the call returns *)
      pose proof (blk_prog K V ltb order s me th acq o (HPO me th Hme) Hb) as HQ. unfold Q in HQ. rewrite Hret in HQ.
      rewrite Et, HQ. cbn [idle_b]. rewrite Ep.
      assert (Hm' : measure s' me = 0).
      { apply measure_idle. unfold TERM_Proof.tpc_of. rewrite Hme', Et. exact HQ. }
      pose proof (measure_pos K V ltb order H4 s me HB Hni). lia.
    + (* the call goes on *)
      assert (Hr : returns ev = None) by (apply returns_returned; rewrite Eev; exact Hret).
      destruct (own_step K V ltb order HS H4 s s' me acq ev HB Hc Hr Hni) as [Hlt Hrun].
      assert (Hni' : tpc th' <> Idle).
      { unfold TERM_Proof.tpc_of in Hrun. rewrite Hme' in Hrun. intros E. rewrite E in Hrun. discriminate Hrun. }
      rewrite (idle_b_false _ Hni'), Ep. lia.
Qed.

(* a step of another thread does not increase it *)
Lemma other_step_pot (P : nat) (s s' : st) me acq ev t :
  BigInv K V ltb order s -> cstep ltb order s me = Stepped s' acq ev -> t <> me ->
  pot P s' t <= pot P s t.
Proof.
  intros HB Hc Hne.
  destruct (other_step_no_increase K V ltb order HS H4 s s' me acq ev t HB Hc Hne) as [Hle _].
  pose proof (step_other_thread K V ltb order s s' me acq ev t Hc Hne) as Hoth.
  unfold pot, rem. rewrite Hoth. lia.
Qed.

(* ------------------------------------------------------------------------------------------------ *)
(* executions                                                                                         *)
(* ------------------------------------------------------------------------------------------------ *)
Lemma steps_of_cons t u (ev : list event) (h : list (tid * list event)) :
  steps_of t ((u, ev) :: h) = (if u =? t then 1 else 0) + steps_of t h.
Proof. unfold TERM_Proof.steps_of. cbn [filter fst]. destruct (u =? t); reflexivity. Qed.

Lemma Phi_exec : forall sched (s : st),
  BigInv K V ltb order s -> Phi (fst (exec ltb order s sched)) <= Phi s.
Proof.
  induction sched as [|u rest IH]; intros s HB; [cbn; lia|].
  rewrite exec_cons. destruct (cstep ltb order s u) as [ | | |s1 acq ev|p] eqn:Hc; try (cbn [fst]; lia).
  cbn [fst]. pose proof (BigInv_step_closed K V ltb order HS H4 Heven s s1 u acq ev HB Hc) as HB1.
  pose proof (Phi_step K V ltb order HS H4 s s1 u acq ev HB Hc). specialize (IH s1 HB1). lia.
Qed.

(* the number of steps of t in an execution from s, plus what is left of t's potential at the end, is at most t's
   potential in s *)
Theorem steps_le_pot (P : nat) : forall sched (s : st) t,
  BigInv K V ltb order s -> Phi s <= P ->
  steps_of t (snd (exec ltb order s sched)) + pot P (fst (exec ltb order s sched)) t <= pot P s t.
Proof.
  induction sched as [|u rest IH]; intros s t HB HP.
  - cbn. lia.
  - rewrite exec_cons. destruct (cstep ltb order s u) as [ | | |s1 acq ev|p] eqn:Hc; try (cbn; lia).
    cbn [fst snd].
    pose proof (BigInv_step_closed K V ltb order HS H4 Heven s s1 u acq ev HB Hc) as HB1.
    pose proof (Phi_step K V ltb order HS H4 s s1 u acq ev HB Hc) as HPhi.
    assert (HP1 : Phi s1 <= P) by lia.
    specialize (IH s1 t HB1 HP1). rewrite steps_of_cons.
    destruct (u =? t) eqn:Eu.
    + apply Nat.eqb_eq in Eu. subst u. pose proof (own_step_pot P s s1 t acq ev HB HP Hc). lia.
    + apply Nat.eqb_neq in Eu. assert (Hne : t <> u) by congruence.
      pose proof (other_step_pot P s s1 u acq ev t HB Hc Hne). lia.
Qed.

(* ------------------------------------------------------------------------------------------------ *)
(* counting the whole history thread by thread                                                        *)
(* ------------------------------------------------------------------------------------------------ *)
Lemma ls_cons (x : nat) (l : list nat) : list_sum (x :: l) = x + list_sum l.
Proof. reflexivity. Qed.

Lemma list_sum_add {A : Type} (f g : A -> nat) (l : list A) :
  list_sum (map (fun x => f x + g x) l) = list_sum (map f l) + list_sum (map g l).
Proof. induction l as [|a l IH]; [reflexivity|]. cbn [map]; rewrite !ls_cons. rewrite IH. lia. Qed.

Lemma list_sum_le {A : Type} (f g : A -> nat) (l : list A) :
  (forall x, In x l -> f x <= g x) -> list_sum (map f l) <= list_sum (map g l).
Proof.
  induction l as [|a l IH]; intros H; [cbn; lia|]. cbn [map]; rewrite !ls_cons.
  pose proof (H a (or_introl eq_refl)). assert (IH' : list_sum (map f l) <= list_sum (map g l)).
  { apply IH. intros x Hx. apply H. right. exact Hx. }
  lia.
Qed.

Lemma list_sum_eq {A : Type} (f g : A -> nat) (l : list A) :
  (forall x, In x l -> f x = g x) -> list_sum (map f l) = list_sum (map g l).
Proof.
  induction l as [|a l IH]; intros H; [reflexivity|]. cbn [map]; rewrite !ls_cons.
  rewrite (H a (or_introl eq_refl)). rewrite IH; [reflexivity|]. intros x Hx. apply H. right. exact Hx.
Qed.

Lemma count_in (x : tid) (l : list tid) : In x l -> 1 <= list_sum (map (fun t => if x =? t then 1 else 0) l).
Proof.
  induction l as [|a l IH]; intros H; [destruct H|]. cbn [map]. rewrite !ls_cons.
  destruct H as [->|H]; [rewrite Nat.eqb_refl; lia|]. specialize (IH H). lia.
Qed.

Lemma length_le_steps (tids : list tid) (h : list (tid * list event)) :
  (forall e, In e h -> In (fst e) tids) -> length h <= list_sum (map (fun t => steps_of t h) tids).
Proof.
  induction h as [|[u ev] h IH]; intros Hin; [cbn; lia|].
  assert (IH' : length h <= list_sum (map (fun t => steps_of t h) tids)).
  { apply IH. intros e He. apply Hin. right. exact He. }
  assert (E : list_sum (map (fun t => steps_of t ((u, ev) :: h)) tids) =
              list_sum (map (fun t => if u =? t then 1 else 0) tids) + list_sum (map (fun t => steps_of t h) tids)).
  { rewrite <- list_sum_add. apply list_sum_eq. intros t _. apply steps_of_cons. }
  rewrite E. pose proof (count_in u tids (Hin (u, ev) (or_introl eq_refl))). cbn [length]. lia.
Qed.

Lemma tg_get_thread_in me (l : list (tid * thread)) th : get_thread me l = Some th -> In me (map fst l).
Proof.
  unfold get_thread. destruct (List.find (fun e => fst e =? me) l) as [[u w]|] eqn:E; [|discriminate].
  intros _. apply find_some in E. destruct E as [Hin Hx]. cbn [fst] in Hx. apply Nat.eqb_eq in Hx. subst u.
  apply in_map_iff. exists (me, w). split; [reflexivity|exact Hin].
Qed.

(* every entry of the history is a step of a thread of the thread table *)
Lemma hist_tids : forall sched (s : st) e,
  In e (snd (exec ltb order s sched)) -> In (fst e) (map fst (ths s)).
Proof.
  induction sched as [|u rest IH]; intros s e Hin; [destruct Hin|].
  rewrite exec_cons in Hin. destruct (cstep ltb order s u) as [ | | |s1 acq ev|p] eqn:Hc; try (exfalso; exact Hin).
  cbn [snd] in Hin. destruct Hin as [<-|Hin].
  - cbn [fst]. destruct (stepped_thread K V ltb order s s1 u acq ev Hc) as [th Hg]. eapply tg_get_thread_in. exact Hg.
  - rewrite <- (step_thread_ids K V ltb order s s1 u acq ev Hc). apply IH. exact Hin.
Qed.

(* the whole execution from s takes at most the sum of the potentials of the threads *)
Theorem exec_length_le_pot (P : nat) (s : st) sched :
  BigInv K V ltb order s -> Phi s <= P ->
  length (snd (exec ltb order s sched)) <= list_sum (map (fun t => pot P s t) (map fst (ths s))).
Proof.
  intros HB HP.
  eapply Nat.le_trans; [apply (length_le_steps (map fst (ths s))); apply hist_tids|].
  apply list_sum_le. intros t _. pose proof (steps_le_pot P sched s t HB HP). lia.
Qed.

(* ------------------------------------------------------------------------------------------------ *)
(* from the initial state                                                                             *)
(* ------------------------------------------------------------------------------------------------ *)
Variable progs : list (tid * list cop).
Hypothesis Hnd : NoDup (map fst progs).

(* the initial potential: the height of the empty tree (0) plus the Insert/Update calls of all programs *)
Definition P0 : nat := Phi (init_st progs).

Lemma P0_explicit : P0 = list_sum (map (fun p => count_ups K V (snd p)) progs).
Proof.
  unfold P0, TERM_Proof.Phi, pending, init_st. cbn [tr ths]. rewrite hgt_leaf. rewrite map_map. cbn [snd plus].
  apply list_sum_eq. intros p _. reflexivity.
Qed.

(* THE BOUND: for every call o of every program, 3 * P0 + 2 * (scan length of o) + 6 *)
Definition bound : nat := list_sum (map (fun p => Wt P0 (snd p)) progs).

Lemma tg_in_get_thread me (th : thread) (l : list (tid * thread)) :
  NoDup (map fst l) -> In (me, th) l -> get_thread me l = Some th.
Proof.
  unfold get_thread. induction l as [|[w thw] l IH]; cbn [map fst List.find In]; intros Hn Hin; [destruct Hin|].
  inversion Hn as [|? ? Hni Hn']; subst.
  destruct Hin as [E|Hin].
  - inversion E; subst. rewrite Nat.eqb_refl. reflexivity.
  - destruct (w =? me) eqn:E.
    + apply Nat.eqb_eq in E. subst w. exfalso. apply Hni. apply in_map_iff. exists (me, th). auto.
    + apply IH; auto.
Qed.

Lemma init_thread p : In p progs ->
  get_thread (fst p) (ths (init_st progs)) = Some {| prog := snd p; tpc := Idle; results := [] |}.
Proof.
  intros Hin. apply tg_in_get_thread.
  - unfold init_st. cbn [ths]. rewrite map_map. cbn [fst]. exact Hnd.
  - unfold init_st. cbn [ths]. apply in_map_iff. exists p. split; [reflexivity|exact Hin].
Qed.

Lemma pot_init p : In p progs -> pot P0 (init_st progs) (fst p) = Wt P0 (snd p).
Proof.
  intros Hin. unfold pot, rem. rewrite (init_thread p Hin). cbn [tpc idle_b prog].
  rewrite measure_idle; [reflexivity|]. unfold TERM_Proof.tpc_of. rewrite (init_thread p Hin). reflexivity.
Qed.

Lemma BigInv_init_st : BigInv K V ltb order (init_st progs).
Proof. exact (final_BigInv_reachable K V ltb HS order Heven H4 progs [] Hnd). Qed.

(* (G1) with the explicit bound *)
Theorem execution_length_le_bound : forall sched,
  length (snd (exec ltb order (init_st progs) sched)) <= bound.
Proof.
  intros sched.
  eapply Nat.le_trans; [apply (exec_length_le_pot P0 (init_st progs) sched BigInv_init_st); unfold P0; lia|].
  unfold bound. assert (E : map fst (ths (init_st progs)) = map fst progs).
  { unfold init_st. cbn [ths]. rewrite map_map. reflexivity. }
  rewrite E, map_map. apply Nat.eq_le_incl. apply list_sum_eq. intros p Hp. apply pot_init. exact Hp.
Qed.

(* per thread: t takes at most the budget of its own program *)
Theorem thread_steps_le_budget : forall sched p, In p progs ->
  steps_of (fst p) (snd (exec ltb order (init_st progs) sched)) <= Wt P0 (snd p).
Proof.
  intros sched p Hp. rewrite <- (pot_init p Hp).
  assert (HP : Phi (init_st progs) <= P0) by (unfold P0; lia).
  pose proof (steps_le_pot P0 sched (init_st progs) (fst p) BigInv_init_st HP). lia.
Qed.

(* (G1) *)
Theorem every_execution_is_finite :
  exists N, forall sched, length (snd (exec ltb order (init_st progs) sched)) <= N.
Proof. exists bound. exact execution_length_le_bound. Qed.

End Finite.

Print Assumptions every_execution_is_finite.
Print Assumptions execution_length_le_bound.

(* OCCc_Op.v — the two additional executable clauses (all_small_b, all_op_b) hold initially; all_op_b is preserved by
   every step (all_small_b: see small_step in OCCc_Proof.v). *)
From Coq Require Import List Permutation Lia Bool PeanoNat.
From GB Require SoloBase.
From GB Require Import ListLemmas TreeLemmas Frame LockProof UpdLemmas FrameRel FrameInv CInv OCCc_Base OCCc_Blocks.
Import ListNotations.

Ltac blk_top HB :=
  match type of HB with
  | bind ?e _ = Ok _ => let E := fresh "HE" in destruct e eqn:E; [cbn [bind] in HB; inversion HB; subst; clear HB | discriminate HB]
  end.

Section Op.
Variables (K V : Type) (ltb : K -> K -> bool).
Notation itree := (itree K V).
Notation pc := (pc K V).
Notation st := (st K V).
Notation out := (out K V).
Notation thread := (thread K V).

Lemma all_small_init order progs : all_small_b order (init_st (K:=K) (V:=V) progs) = true.
Proof. unfold all_small_b, init_st. simpl. rewrite forallb_forall. intros e H. apply in_map_iff in H. destruct H as [x [<- _]]. reflexivity. Qed.
Lemma all_op_init progs : all_op_b (init_st (K:=K) (V:=V) progs) = true.
Proof. unfold all_op_b, init_st. simpl. rewrite forallb_forall. intros e H. apply in_map_iff in H. destruct H as [x [<- _]]. reflexivity. Qed.

Lemma ins_descend_op o n (t : itree) l fr tmx (out : out) :
  ins_descend ltb o n t l fr tmx = Ok out -> is_ups o = true -> pc_op_b (opc out) = true.
Proof.
  intros H Ho. unfold ins_descend, mk in H.
  crunch H; inversion H; subst; clear H; cbn [opc]; try reflexivity; try discriminate Ho; exact Ho.
Qed.

Lemma sea_descend_op o n (t : itree) l fr tmx (out : out) :
  sea_descend ltb o n t l fr tmx = Ok out -> pc_op_b (opc out) = true.
Proof.
  intros H. unfold sea_descend, mk in H. crunch H; inversion H; subst; clear H; reflexivity.
Qed.

Lemma del_descend_op o stk n (t : itree) p : del_descend ltb o stk n t = Ok p -> pc_op_b p = true.
Proof. intros H. unfold del_descend in H. crunch H; inversion H; subst; clear H. destruct (0 <? a); reflexivity. Qed.

Lemma unwind_op order fuel : forall o stk small right (t : itree) l fr tmx (out : out),
  unwind order fuel o stk small right t l fr tmx = Ok out -> pc_op_b (opc out) = true.
Proof.
  induction fuel as [|fuel IH]; intros o stk small right t l fr tmx out H; simpl in H; [discriminate|].
  destruct stk as [|f rest]; [unfold mk in H; inversion H; reflexivity|].
  destruct (negb small); [eapply IH; eauto|].
  destruct (find (fp f) t) as [[?|pi cs]|]; try discriminate H.
  destruct ((fidx f + 1 <? length cs) && match right with None => true | Some _ => false end).
  - unfold mk in H. inversion H. reflexivity.
  - destruct (irebalance order f t) as [[t' small']|]; [cbn [bind] in H|discriminate H]. eapply IH; eauto.
Qed.

Opaque unwind.

Lemma blk_op order (s : st) me th tg (r : out) :
  pc_op_b (tpc th) = true -> SoloBase.blk ltb order s me th tg = Ok (Some r) -> pc_op_b (opc r) = true.
Proof.
  intros Hop H. unfold SoloBase.blk in H. cbv zeta in H.
  destruct (tpc th) as [ |o|o r0|o lft rgt|o p c index|o p c r0|o leaf mode index|o p c|o stk|o stk|o stk|leaf i n acc|leaf nxt n acc].
  - destruct (prog th); unfold mk in H; cbn [bind] in H; inversion H; reflexivity.
  - unfold mk in H. cbn [bind] in H. inversion H. reflexivity.
  - blk_top H. destruct o as [k v|k f|k|k|k cnt].
    + destruct (isplit order (fresh s) (tr s)) as [[l1 r1]|].
      * crunch HE; try (eapply ins_descend_op; [eassumption|reflexivity]). unfold mk in HE. inversion HE. reflexivity.
      * eapply ins_descend_op; [eassumption|reflexivity].
    + destruct (isplit order (fresh s) (tr s)) as [[l1 r1]|].
      * crunch HE; try (eapply ins_descend_op; [eassumption|reflexivity]). unfold mk in HE. inversion HE. reflexivity.
      * eapply ins_descend_op; [eassumption|reflexivity].
    + destruct (tr s) as [i nx es|i cs].
      * unfold mk in HE. crunch HE. inversion HE. reflexivity.
      * unfold mk in HE. crunch HE. inversion HE. subst. eapply del_descend_op; eauto.
    + eapply sea_descend_op; eauto.
    + eapply sea_descend_op; eauto.
  - blk_top H. eapply ins_descend_op; eauto.
  - blk_top H. simpl in Hop. unfold mk in HE.
    crunch HE; try (eapply ins_descend_op; eassumption); inversion HE; subst; exact Hop.
  - blk_top H. eapply ins_descend_op; eauto.
  - blk_top H. unfold mk in HE. crunch HE; inversion HE; reflexivity.
  - blk_top H. eapply sea_descend_op; eauto.
  - blk_top H. unfold mk in HE. crunch HE; inversion HE; reflexivity.
  - blk_top H. unfold mk in HE.
    crunch HE; try (eapply unwind_op; eassumption); inversion HE; subst; eapply del_descend_op; eauto.
  - blk_top H. crunch HE. eapply unwind_op; eauto.
  - blk_top H. unfold mk in HE. crunch HE; inversion HE; reflexivity.
  - blk_top H. unfold mk in HE. crunch HE; inversion HE; reflexivity.
Qed.

Transparent unwind.

Lemma forallb_set_thread (P : tid * thread -> bool) me (th' : thread) l :
  forallb P l = true -> P (me, th') = true -> forallb P (set_thread me th' l) = true.
Proof.
  intros Hl Hp. rewrite forallb_forall in *. intros e He. unfold set_thread in He. apply in_map_iff in He.
  destruct He as [x [<- Hx]]. destruct (fst x =? me); [exact Hp | apply Hl; exact Hx].
Qed.

(* all_op_b is inductive (no other invariant needed) *)
Theorem op_step : forall order (s s' : st) me acq ev,
  all_op_b s = true -> cstep ltb order s me = Stepped s' acq ev -> all_op_b s' = true.
Proof.
  intros order s s' me acq ev Hops H. rewrite SoloBase.cstep_eq in H.
  destruct (get_thread me (ths s)) as [th|] eqn:Hme; [|discriminate H].
  destruct (target s (tpc th)) as [tg|]; [|discriminate H].
  destruct (negb (is_free s tg)); [discriminate H|].
  destruct (SoloBase.blk ltb order s me th tg) as [[o|]|] eqn:HB; try discriminate H.
  inversion H; subst. unfold all_op_b, SoloBase.commit. cbn [ths].
  apply forallb_set_thread; [exact Hops|]. cbn [snd].
  assert (Hop : pc_op_b (tpc th) = true).
  { unfold all_op_b in Hops. rewrite forallb_forall in Hops. apply (Hops (me, th)). apply get_thread_in. exact Hme. }
  pose proof (blk_op order s me th _ o Hop HB) as X.
  destruct (SoloBase.returned (oev o)); exact X.
Qed.

End Op.

Print Assumptions op_step.

package main

import (
	"bufio"
	"fmt"
	"math/rand"
	"os"
	"sort"
	"strconv"
	"strings"

	g "github.com/karrick/gobptree"
)

type ccase struct {
	id     string
	typ    string
	order  int
	keys   []string
	init   []string
	progs  map[int][]string
	tids   []int
	sched  []string // "rand seed count maxsteps" | "all maxpre maxruns" | "list t t t"
	dump   string   // "steps" | "final"
}

type runOut struct {
	w *bufio.Writer
}

// one execution of a case under a schedule chooser; returns the executed schedule, the enabled sets seen
// before each step, and whether it ended in deadlock.
func execCase(c *ccase, out *bufio.Writer, runIdx int, choose func(step int, enabled []int, last int) int) (sched []int, enabledAt [][]int, deadlock bool, err error) {
	g.VerifHeld = 0
	t, err := newTree(c.typ, c.order, c.keys)
	if err != nil {
		return nil, nil, false, err
	}
	for _, o := range c.init {
		if o == "" {
			continue
		}
		if res, dead := seqOp(t, strings.Fields(o)); dead {
			return nil, nil, false, fmt.Errorf("init op %q failed: %s", o, res)
		}
	}
	events := map[int][]string{}
	results := map[int][]string{}
	workers := map[int]func(){}
	for _, tid := range c.tids {
		tid := tid
		prog := c.progs[tid]
		workers[tid] = func() {
			defer func() {
				if r := recover(); r != nil {
					code := panicCode(r)
					events[tid] = append(events[tid], "panic:"+code)
					results[tid] = append(results[tid], "panic="+code)
				}
			}()
			for j, o := range prog {
				if j > 0 {
					g.VerifYield()
				}
				f := strings.Fields(o)
				events[tid] = append(events[tid], "inv:"+strings.Join(f, "_"))
				var res string
				switch f[0] {
				case "I":
					t.insert(parseKey(f[1]), parseVal(f[2]))
					res = "ok"
				case "U":
					d, _ := strconv.Atoi(f[2])
					calls, arg := 0, "nocall"
					cb := addCb(d, &calls, &arg)
					t.update(parseKey(f[1]), func(v interface{}, ok bool) interface{} {
						g.VerifYield()
						return cb(v, ok)
					})
					res = fmt.Sprintf("arg=%s/calls=%d", arg, calls)
				case "D":
					t.del(parseKey(f[1]))
					res = "ok"
				case "S":
					v, ok := t.search(parseKey(f[1]))
					if ok {
						res = "found=" + valStr(v)
					} else {
						res = "found=none"
					}
				case "C":
					n, _ := strconv.Atoi(f[2])
					cur := t.scanner(parseKey(f[1]))
					var got []string
					open := true
					for i := 0; i < n; i++ {
						g.VerifYield()
						if !cur.scan() {
							open = false
							events[tid] = append(events[tid], "end")
							break
						}
						k, v := cur.pair()
						p := k + "=" + valStr(v)
						got = append(got, p)
						events[tid] = append(events[tid], "pair:"+p)
					}
					if open {
						g.VerifYield()
						cur.close()
						cur.close()
					}
					res = "pairs=" + strings.Join(got, ",")
				}
				events[tid] = append(events[tid], "ret:"+res)
				results[tid] = append(results[tid], res)
			}
		}
	}
	s := g.VerifStart(c.tids, workers)
	defer s.Stop()
	state := func() string {
		var sb strings.Builder
		sb.WriteString(t.dump(true))
		sb.WriteString(" pend:")
		for _, w := range s.IDs() {
			switch s.State(w) {
			case "done":
				fmt.Fprintf(&sb, " w%d=done", w)
			case "free":
				fmt.Fprintf(&sb, " w%d=-", w)
			default:
				fmt.Fprintf(&sb, " w%d=%s", w, t.pos(s.Pending(w)))
			}
		}
		return sb.String()
	}
	fmt.Fprintf(out, "RUN %s %d\n", c.id, runIdx)
	fmt.Fprintf(out, "START %s\n", state())
	last := -1
	step := 0
	for s.Alive() > 0 {
		en := s.Enabled()
		enabledAt = append(enabledAt, en)
		if len(en) == 0 {
			deadlock = true
			var alive []string
			for _, w := range s.IDs() {
				if s.State(w) != "done" {
					alive = append(alive, fmt.Sprintf("w%d->%s", w, t.pos(s.Pending(w))))
				}
			}
			fmt.Fprintf(out, "DEADLOCK %s | %s\n", strings.Join(alive, ","), state())
			break
		}
		w := choose(step, en, last)
		if w < 0 {
			fmt.Fprintf(out, "TRUNCATED\n")
			break
		}
		acq := s.Step(w)
		a := "-"
		if acq != nil {
			a = t.pos(acq)
		}
		ev := strings.Join(events[w], ",")
		events[w] = nil
		if ev == "" {
			ev = "-"
		}
		var ens []string
		for _, e := range s.Enabled() {
			ens = append(ens, strconv.Itoa(e))
		}
		if c.dump == "steps" {
			fmt.Fprintf(out, "STEP %d acq=%s ev=%s en=%s | %s\n", w, a, ev, strings.Join(ens, ","), state())
		} else {
			fmt.Fprintf(out, "STEP %d acq=%s ev=%s en=%s\n", w, a, ev, strings.Join(ens, ","))
		}
		sched = append(sched, w)
		last = w
		step++
	}
	fmt.Fprintf(out, "END %s held=%d\n", state(), g.VerifHeld)
	for _, tid := range c.tids {
		fmt.Fprintf(out, "RES %d %s\n", tid, strings.Join(results[tid], ";"))
	}
	return sched, enabledAt, deadlock, nil
}

func contains(l []int, x int) bool {
	for _, y := range l {
		if y == x {
			return true
		}
	}
	return false
}

func runSchedCase(c *ccase, out *bufio.Writer) error {
	runIdx := 0
	for _, spec := range c.sched {
		f := strings.Fields(spec)
		switch f[0] {
		case "rand":
			seed, _ := strconv.ParseInt(f[1], 10, 64)
			count, _ := strconv.Atoi(f[2])
			maxsteps, _ := strconv.Atoi(f[3])
			for r := 0; r < count; r++ {
				rng := rand.New(rand.NewSource(seed + int64(r)*7919))
				// mostly run one thread for a stretch, sometimes switch: gives both coarse and fine interleavings
				sticky := rng.Intn(3)
				_, _, _, err := execCase(c, out, runIdx, func(step int, en []int, last int) int {
					if step >= maxsteps {
						return -1
					}
					if sticky > 0 && last >= 0 && contains(en, last) && rng.Intn(sticky+1) != 0 {
						return last
					}
					return en[rng.Intn(len(en))]
				})
				if err != nil {
					return err
				}
				runIdx++
			}
		case "list":
			var lst []int
			for _, x := range f[1:] {
				v, _ := strconv.Atoi(x)
				lst = append(lst, v)
			}
			_, _, _, err := execCase(c, out, runIdx, func(step int, en []int, last int) int {
				if step < len(lst) {
					if contains(en, lst[step]) {
						return lst[step]
					}
					return -1 // the requested thread cannot move here
				}
				return en[0]
			})
			if err != nil {
				return err
			}
			runIdx++
		case "pct":
			// probabilistic concurrency testing (Burckhardt et al.): random thread priorities, the highest enabled
			// priority runs, and at depth-1 random change points the running thread drops to the lowest priority:
			// long stretches with few, randomly placed preemptions (the seeded fine-grained scheduler almost never
			// produces those on long runs)
			seed, _ := strconv.ParseInt(f[1], 10, 64)
			count, _ := strconv.Atoi(f[2])
			depth, _ := strconv.Atoi(f[3])
			kmax, _ := strconv.Atoi(f[4])
			for r := 0; r < count; r++ {
				rng := rand.New(rand.NewSource(seed + int64(r)*104729))
				prio := map[int]int{}
				for i, j := range rng.Perm(len(c.tids)) {
					prio[c.tids[i]] = depth + j
				}
				change := map[int]int{}
				for j := 0; j < depth-1; j++ {
					change[1+rng.Intn(kmax)] = depth - 1 - j
				}
				_, _, _, err := execCase(c, out, runIdx, func(step int, en []int, last int) int {
					if step >= 8*kmax {
						return -1
					}
					if np, ok := change[step]; ok && last >= 0 {
						prio[last] = np
					}
					best := en[0]
					for _, e := range en {
						if prio[e] > prio[best] {
							best = e
						}
					}
					return best
				})
				if err != nil {
					return err
				}
				runIdx++
			}
		case "pref":
			// follow the listed threads while they can move; where the listed thread is blocked or finished (the
			// code under test changed), or after the list, run the lowest enabled thread: always a complete run
			var lst []int
			for _, x := range f[1:] {
				v, _ := strconv.Atoi(x)
				lst = append(lst, v)
			}
			_, _, _, err := execCase(c, out, runIdx, func(step int, en []int, last int) int {
				if step < len(lst) && contains(en, lst[step]) {
					return lst[step]
				}
				return en[0]
			})
			if err != nil {
				return err
			}
			runIdx++
		case "all":
			maxpre, _ := strconv.Atoi(f[1])
			maxruns, _ := strconv.Atoi(f[2])
			// stateless DFS: every schedule is executed once, from scratch
			var prefix []int
			for {
				var enAt [][]int
				var pre []int // number of preemptions before each step
				npre := 0
				sched, enAt2, _, err := execCase(c, out, runIdx, func(step int, en []int, last int) int {
					var w int
					if step < len(prefix) {
						w = prefix[step]
					} else {
						w = -2
						// default policy: keep running the last thread if enabled (no preemption), else the smallest
						if last >= 0 && contains(en, last) {
							w = last
						} else {
							w = en[0]
						}
					}
					pre = append(pre, npre)
					if last >= 0 && w != last && contains(en, last) {
						npre++
					}
					return w
				})
				if err != nil {
					return err
				}
				enAt = enAt2
				runIdx++
				if runIdx >= maxruns {
					fmt.Fprintf(out, "ENUM-TRUNCATED %s %d\n", c.id, runIdx)
					break
				}
				// backtrack: deepest step with an untried alternative (in sorted order after the one taken)
				next := -1
				var alt int
				for i := len(sched) - 1; i >= 0 && next < 0; i-- {
					en := append([]int(nil), enAt[i]...)
					sort.Ints(en)
					lastT := -1
					if i > 0 {
						lastT = sched[i-1]
					}
					// order of alternatives at a step: the no-preemption choice first, then the others ascending
					order := []int{}
					if lastT >= 0 && contains(en, lastT) {
						order = append(order, lastT)
					}
					for _, e := range en {
						if e != lastT || !(lastT >= 0 && contains(en, lastT)) {
							if !contains(order, e) {
								order = append(order, e)
							}
						}
					}
					pos := -1
					for j, e := range order {
						if e == sched[i] {
							pos = j
						}
					}
					for j := pos + 1; j < len(order); j++ {
						cand := order[j]
						p := pre[i]
						if lastT >= 0 && cand != lastT && contains(en, lastT) {
							p++
						}
						if maxpre >= 0 && p > maxpre {
							continue
						}
						next = i
						alt = cand
						break
					}
				}
				if next < 0 {
					break
				}
				prefix = append(append([]int(nil), sched[:next]...), alt)
			}
		}
	}
	return nil
}

func runSched(casesPath, obsPath string) error {
	in, err := os.Open(casesPath)
	if err != nil {
		return err
	}
	defer in.Close()
	outf, err := os.Create(obsPath)
	if err != nil {
		return err
	}
	w := bufio.NewWriterSize(outf, 1<<20)
	defer func() { w.Flush(); outf.Close() }()
	sc := bufio.NewScanner(in)
	sc.Buffer(make([]byte, 1<<20), 1<<28)
	var c *ccase
	flush := func() error {
		if c == nil {
			return nil
		}
		err := runSchedCase(c, w)
		c = nil
		return err
	}
	for sc.Scan() {
		line := sc.Text()
		switch {
		case strings.HasPrefix(line, "CASE "):
			if err := flush(); err != nil {
				return err
			}
			f := strings.Fields(line)
			c = &ccase{id: f[1], progs: map[int][]string{}, dump: "steps"}
			for _, kv := range f[2:] {
				p := strings.SplitN(kv, "=", 2)
				switch p[0] {
				case "type":
					c.typ = p[1]
				case "order":
					c.order, _ = strconv.Atoi(p[1])
				case "dump":
					c.dump = p[1]
				}
			}
		case strings.HasPrefix(line, "KEYS"):
			c.keys = strings.Fields(line)[1:]
		case strings.HasPrefix(line, "INIT"):
			if len(line) > 5 {
				c.init = strings.Split(line[5:], ";")
			}
		case strings.HasPrefix(line, "PROG "):
			f := strings.SplitN(line, " ", 3)
			tid, _ := strconv.Atoi(f[1])
			c.tids = append(c.tids, tid)
			if len(f) > 2 {
				c.progs[tid] = strings.Split(f[2], ";")
			}
		case strings.HasPrefix(line, "SCHED "):
			c.sched = append(c.sched, line[6:])
		}
	}
	if err := flush(); err != nil {
		return err
	}
	return sc.Err()
}

(* TBs_Spec.v — the queries of TBs_Def.v on a strictly ascending association list: [first_ge] / [first_gt] answer
   the LEAST pair not below k / above k0 among the members of the list (both directions), and "end" iff there is
   none.  This is the bridge from the cursor theorems (stated with In-members of [abs s]) to [qry_ans]. *)
From Coq Require Import List Bool PeanoNat Lia Sorted.
From GB Require Import Model Spec Inv TBs_Def.
Import ListNotations.

Section QSpec.
Variables (K V : Type) (ltb : K -> K -> bool).
Hypothesis HS : SWO ltb.
Notation SS := (StronglySorted (fun a b => ltb a b = true)).

Lemma SS_head_lt k v (r : list (K * V)) e : SS (map fst ((k, v) :: r)) -> In e r -> ltb k (fst e) = true.
Proof.
  intros H Hin. simpl in H. apply StronglySorted_inv in H. destruct H as [_ H].
  rewrite Forall_forall in H. apply H. apply in_map. exact Hin.
Qed.

Lemma SS_tail k v (r : list (K * V)) : SS (map fst ((k, v) :: r)) -> SS (map fst r).
Proof. intros H. simpl in H. apply StronglySorted_inv in H. exact (proj1 H). Qed.

(* ---- QFirst ---- *)
Lemma first_ge_least k (m : list (K * V)) e :
  SS (map fst m) -> In e m -> ltb (fst e) k = false ->
  (forall e', In e' m -> ltb (fst e') k = false -> ltb (fst e') (fst e) = false) ->
  first_ge ltb k m = Some e.
Proof.
  induction m as [|[k' v] r IH]; intros Hs Hin Hk Hleast; [destruct Hin|]. simpl.
  destruct (ltb k' k) eqn:E.
  - apply IH.
    + exact (SS_tail _ _ _ Hs).
    + destruct Hin as [<-|Hin]; [|exact Hin]. simpl in Hk. congruence.
    + exact Hk.
    + intros e' He'. apply Hleast. right. exact He'.
  - destruct Hin as [<-|Hin]; [reflexivity|]. exfalso.
    pose proof (SS_head_lt _ _ _ _ Hs Hin) as Hlt.
    pose proof (Hleast (k', v) (or_introl eq_refl) E) as X. simpl in X. rewrite X in Hlt. discriminate Hlt.
Qed.

Lemma first_ge_none k (m : list (K * V)) :
  (forall e', In e' m -> ltb (fst e') k = true) -> first_ge ltb k m = None.
Proof.
  induction m as [|[k' v] r IH]; intros H; [reflexivity|]. simpl.
  pose proof (H (k', v) (or_introl eq_refl)) as X. simpl in X. rewrite X. apply IH. intros e' He'. apply H. right. exact He'.
Qed.

Lemma first_ge_some_inv k (m : list (K * V)) e :
  SS (map fst m) -> first_ge ltb k m = Some e ->
  In e m /\ ltb (fst e) k = false /\ forall e', In e' m -> ltb (fst e') k = false -> ltb (fst e') (fst e) = false.
Proof.
  induction m as [|[k' v] r IH]; intros Hs H; [discriminate H|]. simpl in H.
  destruct (ltb k' k) eqn:E.
  - destruct (IH (SS_tail _ _ _ Hs) H) as (H1 & H2 & H3). split; [right; exact H1|]. split; [exact H2|].
    intros e' [<-|He'] Hk'; [simpl in Hk'; congruence|]. apply H3; assumption.
  - inversion H; subst e. split; [left; reflexivity|]. split; [exact E|].
    intros e' [<-|He'] _; [apply (swo_irrefl HS)|].
    pose proof (SS_head_lt _ _ _ _ Hs He') as Hlt. simpl.
    destruct (ltb (fst e') k') eqn:E2; [|reflexivity].
    pose proof (swo_trans HS _ _ _ Hlt E2) as X. rewrite (swo_irrefl HS) in X. discriminate X.
Qed.

Lemma first_ge_none_inv k (m : list (K * V)) :
  first_ge ltb k m = None -> forall e', In e' m -> ltb (fst e') k = true.
Proof.
  induction m as [|[k' v] r IH]; intros H e' He'; [destruct He'|]. simpl in H.
  destruct (ltb k' k) eqn:E; [|discriminate H]. destruct He' as [<-|He']; [exact E|]. apply IH; assumption.
Qed.

(* ---- QNext ---- *)
Lemma first_gt_least k0 (m : list (K * V)) e :
  SS (map fst m) -> In e m -> ltb k0 (fst e) = true ->
  (forall e', In e' m -> ltb k0 (fst e') = true -> ltb (fst e') (fst e) = false) ->
  first_gt ltb k0 m = Some e.
Proof.
  induction m as [|[k' v] r IH]; intros Hs Hin Hk Hleast; [destruct Hin|]. simpl.
  destruct (ltb k0 k') eqn:E.
  - destruct Hin as [<-|Hin]; [reflexivity|]. exfalso.
    pose proof (SS_head_lt _ _ _ _ Hs Hin) as Hlt.
    pose proof (Hleast (k', v) (or_introl eq_refl) E) as X. simpl in X. rewrite X in Hlt. discriminate Hlt.
  - apply IH.
    + exact (SS_tail _ _ _ Hs).
    + destruct Hin as [<-|Hin]; [|exact Hin]. simpl in Hk. congruence.
    + exact Hk.
    + intros e' He'. apply Hleast. right. exact He'.
Qed.

Lemma first_gt_none k0 (m : list (K * V)) :
  (forall e', In e' m -> ltb k0 (fst e') = false) -> first_gt ltb k0 m = None.
Proof.
  induction m as [|[k' v] r IH]; intros H; [reflexivity|]. simpl.
  pose proof (H (k', v) (or_introl eq_refl)) as X. simpl in X. rewrite X. apply IH. intros e' He'. apply H. right. exact He'.
Qed.

Lemma first_gt_some_inv k0 (m : list (K * V)) e :
  SS (map fst m) -> first_gt ltb k0 m = Some e ->
  In e m /\ ltb k0 (fst e) = true /\ forall e', In e' m -> ltb k0 (fst e') = true -> ltb (fst e') (fst e) = false.
Proof.
  induction m as [|[k' v] r IH]; intros Hs H; [discriminate H|]. simpl in H.
  destruct (ltb k0 k') eqn:E.
  - inversion H; subst e. split; [left; reflexivity|]. split; [exact E|].
    intros e' [<-|He'] _; [apply (swo_irrefl HS)|].
    pose proof (SS_head_lt _ _ _ _ Hs He') as Hlt. simpl.
    destruct (ltb (fst e') k') eqn:E2; [|reflexivity].
    pose proof (swo_trans HS _ _ _ Hlt E2) as X. rewrite (swo_irrefl HS) in X. discriminate X.
  - destruct (IH (SS_tail _ _ _ Hs) H) as (H1 & H2 & H3). split; [right; exact H1|]. split; [exact H2|].
    intros e' [<-|He'] Hk'; [simpl in Hk'; congruence|]. apply H3; assumption.
Qed.

Lemma first_gt_none_inv k0 (m : list (K * V)) :
  first_gt ltb k0 m = None -> forall e', In e' m -> ltb k0 (fst e') = false.
Proof.
  induction m as [|[k' v] r IH]; intros H e' He'; [destruct He'|]. simpl in H.
  destruct (ltb k0 k') eqn:E; [discriminate H|]. destruct He' as [<-|He']; [exact E|]. apply IH; assumption.
Qed.

End QSpec.

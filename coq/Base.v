(* Base.v — result monad with Go's panics as values, and the slice idioms used by the model. *)
From Coq Require Export List Bool PeanoNat.
Export ListNotations.
Open Scope nat_scope.

(* One constructor per way the Go code can panic (or the model can run out of fuel). *)
Inductive panic :=
| PFuel            (* model only: recursion fuel exhausted (no Go counterpart; excluded by theorems) *)
| PIndex           (* index out of range / nil dereference *)
| PLeafEmpty       (* panic("leaf node has no children") *)
| PInternalEmpty   (* panic("internal node has no children") *)
| PNoSiblings      (* panic("both left and right siblings have no children") *)
| PAdoptR | PAdoptL | PAbsorb (* type assertion / empty donor in adoptFromRight, adoptFromLeft, absorbRight *).

Inductive res (A : Type) := Ok (a : A) | Panic (msg : panic).
Arguments Ok {A}. Arguments Panic {A}.
Definition bind {A B} (r : res A) (f : A -> res B) : res B :=
  match r with Ok a => f a | Panic m => Panic m end.
Notation "x <- e ;; k" := (bind e (fun x => k)) (at level 61, e at next level, right associativity).
Notation "' p <- e ;; k" := (bind e (fun p => k)) (at level 61, p pattern, e at next level, right associativity).

Definition set_nth {A} (i : nat) (x : A) (l : list A) : list A := firstn i l ++ x :: skipn (S i) l.
Definition ins_nth {A} (i : nat) (x : A) (l : list A) : list A := firstn i l ++ x :: skipn i l.
Definition del_nth {A} (i : nat) (l : list A) : list A := firstn i l ++ skipn (S i) l.
Definition get_nth {A} (i : nat) (l : list A) : res A :=
  match nth_error l i with Some x => Ok x | None => Panic PIndex end.

(* The literal Go idiom  s = append(s, zero); copy(s[i+1:], s[i:]); s[i] = x  on a list.
   [shift_right i l] is the effect of the overlapping copy (memmove semantics) after the append. *)
Definition slice_insert {A} (zero : A) (i : nat) (x : A) (l : list A) : list A :=
  let l1 := l ++ [zero] in
  let l2 := firstn (S i) l1 ++ firstn (length l1 - S i) (skipn i l1) in
  set_nth i x l2.

(* client-visible operations and what each returns (shared by the model and the specification) *)
Inductive op (K V : Type) := OInsert (k : K) (v : V) | OUpdate (k : K) (f : option V -> V) | ODelete (k : K) | OSearch (k : K).
Inductive obs (V : Type) := ObsUnit | ObsArg (a : option V) | ObsFound (a : option V).
Arguments OInsert {K V}. Arguments OUpdate {K V}. Arguments ODelete {K V}. Arguments OSearch {K V}.
Arguments ObsUnit {V}. Arguments ObsArg {V}. Arguments ObsFound {V}.

(* InstancesConc.v — the concurrent model at the harness's key/value instance *)
From Coq Require Import ZArith.
From GB Require Import Model Conc Instances GI CInv NoDeadlock Lin Spec CInv3 NoGap.

Definition c_st := st HK HV.
Definition c_cstep := @cstep HK HV hltb.
Definition c_target := @target HK HV.
Definition c_path_of := @path_of HK HV.
Definition c_holder := holder.
Definition c_init := @init_st HK HV.
Definition c_enabled := @enabled HK HV.
Definition c_unfinished := @unfinished HK HV.
Definition c_erase := @erase_ids HK HV.
Definition c_leaf_links := @leaf_links HK HV.
Definition c_gi_b := @gi_b HK HV hltb.
Definition c_gi_full_b := @gi_full_b HK HV hltb.
Definition c_all_pc_ok_b := @all_pc_ok_b HK HV hltb.
Definition c_occ_ok_b := @occ_ok_b HK HV.
Definition c_all_pc_ok2_b := @all_pc_ok2_b HK HV.
Definition c_abs := @abs HK HV hltb.
Definition c_lp_step := @lp_step HK HV hltb.
Definition c_step_spec := @step_spec HK HV hltb.
Definition c_all_pc_ok3_b := @all_pc_ok3_b HK HV hltb.
Definition c_nogap_b := @nogap_st_b HK HV hltb.
Definition c_scan_lo_b := @scan_lo_b HK HV hltb.

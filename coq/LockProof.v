(* LockProof.v — the lock footprint of every thread is a function of its program counter (C09, C10, C05).

   FINDING.  [lock_inv] of LockInv.v is NOT inductive on its own (see the end of this file for two concrete
   counterexample states): it constrains a Delete pc only by [stk <> []], but
     (a) DelWantLeft / DelWantChild overwrite the [fl] / [fc] field of the top frame (set_fl / set_fc), so a
         lock recorded there beforehand would be forgotten while still held, and
     (b) the last step of [unwind] releases [nid t] (the CURRENT root) whereas the lock that is held is
         [fp] of the bottom frame (the root at the time WantT ran).
   Both are excluded in reachable states.  We therefore prove the step theorem for
       lock_inv2 s := lock_inv s /\ every pc satisfies pc_wf2 (nid (tr s))
   where pc_wf2 says: WantRoot's r is the current root; the bottom frame of a Delete stack is the current
   root; at DelWantLeft the top frame has fl = fc = None; at DelWantChild the top frame has fc = None.
   [lock_inv2] holds initially, is preserved by [cstep] and [exec], and implies [lock_inv]; all the
   "static" consequences are proved from [lock_inv] alone, exactly as stated in the task. *)
From Coq Require Import List Permutation Lia Bool PeanoNat.
From GB Require Import LockInv.
Import ListNotations.

(* ------------------------------------------------------------------------------------------------ *)
(* lock tables                                                                                        *)
(* ------------------------------------------------------------------------------------------------ *)

Lemma held_by_cons : forall t x u l,
  held_by t ((x, u) :: l) = if u =? t then x :: held_by t l else held_by t l.
Proof. intros. unfold held_by. simpl. destruct (u =? t); reflexivity. Qed.

Lemma held_by_unlock : forall t x l,
  held_by t (unlock x l) = filter (fun y => negb (y =? x)) (held_by t l).
Proof.
  intros t x l. unfold held_by, unlock. induction l as [|[y u] l IH]; simpl; auto.
  destruct (y =? x) eqn:E1; destruct (u =? t) eqn:E2; simpl; rewrite ?E1, ?E2; simpl; rewrite ?E1; simpl; rewrite IH; auto.
Qed.

Lemma In_held_by : forall x t l, In x (held_by t l) <-> In (x, t) l.
Proof.
  intros x t l. unfold held_by. rewrite in_map_iff. split.
  - intros [[y u] [E H]]. apply filter_In in H. simpl in *. destruct H as [H1 H2].
    apply Nat.eqb_eq in H2. subst. auto.
  - intros H. exists (x, t). split; auto. apply filter_In. split; auto. simpl. apply Nat.eqb_refl.
Qed.

Lemma NoDup_ids_functional : forall (l : list (id * tid)) x t1 t2,
  NoDup (map fst l) -> In (x, t1) l -> In (x, t2) l -> t1 = t2.
Proof.
  induction l as [|[y u] l IH]; simpl; intros x t1 t2 Hnd H1 H2; [tauto|].
  inversion Hnd as [|? ? Hni Hnd']; subst.
  destruct H1 as [H1|H1]; destruct H2 as [H2|H2].
  - congruence.
  - inversion H1; subst. exfalso. apply Hni. apply in_map_iff. exists (x, t2). auto.
  - inversion H2; subst. exfalso. apply Hni. apply in_map_iff. exists (x, t1). auto.
  - eauto.
Qed.

Lemma NoDup_map_fst_filter : forall (A B : Type) (p : A * B -> bool) (l : list (A * B)),
  NoDup (map fst l) -> NoDup (map fst (filter p l)).
Proof.
  induction l as [|a l IH]; simpl; intros Hnd; auto.
  inversion Hnd as [|? ? Hni Hnd']; subst.
  destruct (p a); simpl; auto. constructor; auto.
  intro Hin. apply Hni. rewrite in_map_iff in *. destruct Hin as [e [E Hf]].
  apply filter_In in Hf. exists e. tauto.
Qed.

Lemma NoDup_held_by : forall t l, NoDup (map fst l) -> NoDup (held_by t l).
Proof. intros. unfold held_by. apply NoDup_map_fst_filter. auto. Qed.

Lemma unlock_NoDup : forall x l, NoDup (map fst l) -> NoDup (map fst (unlock x l)).
Proof. intros. unfold unlock. apply NoDup_map_fst_filter. auto. Qed.

Lemma In_unlock : forall (e : id * tid) x l, In e (unlock x l) -> In e l.
Proof. intros e x l H. unfold unlock in H. apply filter_In in H. tauto. Qed.

Lemma filter_perm : forall (A : Type) (p : A -> bool) (l1 l2 : list A),
  Permutation l1 l2 -> Permutation (filter p l1) (filter p l2).
Proof.
  intros A p l1 l2 H. induction H; simpl.
  - constructor.
  - destruct (p x); auto.
  - destruct (p x); destruct (p y); auto. apply perm_swap.
  - eapply perm_trans; eauto.
Qed.

Lemma filter_notin : forall x (l : list id), ~ In x l -> filter (fun y => negb (y =? x)) l = l.
Proof.
  induction l as [|a l IH]; simpl; intros H; auto.
  destruct (a =? x) eqn:E.
  - apply Nat.eqb_eq in E. subst. tauto.
  - simpl. f_equal. apply IH. tauto.
Qed.

Lemma held_unlock_me : forall me x l H,
  NoDup (map fst l) -> Permutation (held_by me l) (x :: H) -> Permutation (held_by me (unlock x l)) H.
Proof.
  intros me x l H Hnd HP. rewrite held_by_unlock.
  pose proof (filter_perm _ (fun y => negb (y =? x)) _ _ HP) as HF. simpl in HF.
  rewrite Nat.eqb_refl in HF. simpl in HF.
  assert (Hn : NoDup (x :: H)) by (eapply Permutation_NoDup; [exact HP | apply NoDup_held_by; auto]).
  inversion Hn as [|? ? Hni Hn']; subst.
  rewrite (@filter_notin x H) in HF by exact Hni. exact HF.
Qed.

Lemma held_unlock_other : forall me u x l,
  NoDup (map fst l) -> In x (held_by me l) -> u <> me -> held_by u (unlock x l) = held_by u l.
Proof.
  intros me u x l Hnd Hin Hne. rewrite held_by_unlock. apply filter_notin.
  intro H. apply In_held_by in H. apply In_held_by in Hin.
  apply Hne. eapply NoDup_ids_functional; eauto.
Qed.

(* release a list of nodes, in order *)
Fixpoint unlocks (R : list id) (l : list (id * tid)) : list (id * tid) :=
  match R with [] => l | x :: R' => unlocks R' (unlock x l) end.

Lemma unlocks_app : forall A B l, unlocks (A ++ B) l = unlocks B (unlocks A l).
Proof. induction A as [|a A IH]; simpl; intros; auto. Qed.

(* THE core lemma: if [me] holds exactly R ++ H, releasing R leaves it with exactly H, leaves every other
   thread's holdings untouched, and keeps ids unique *)
Lemma unlocks_ok : forall me R l H,
  NoDup (map fst l) -> Permutation (held_by me l) (R ++ H) ->
  NoDup (map fst (unlocks R l)) /\
  (forall e, In e (unlocks R l) -> In e l) /\
  (forall u, u <> me -> held_by u (unlocks R l) = held_by u l) /\
  Permutation (held_by me (unlocks R l)) H.
Proof.
  intros me R. induction R as [|x R IH]; simpl; intros l H Hnd HP.
  - repeat split; auto.
  - assert (Hin : In x (held_by me l)).
    { eapply Permutation_in; [apply Permutation_sym; exact HP | left; auto]. }
    destruct (IH (unlock x l) H (unlock_NoDup x l Hnd) (held_unlock_me me x l (R ++ H) Hnd HP)) as [I1 [I2 [I3 I4]]].
    repeat split; auto.
    + intros e He. eapply In_unlock. apply I2. exact He.
    + intros u Hu. rewrite I3; auto. eapply held_unlock_other; eauto.
Qed.

(* a small solver for Permutation goals between lists  a1 :: ... :: an :: T  with a common tail *)
Ltac perm_find a R pre k :=
  lazymatch R with
  | a :: ?R2 => k pre R2
  | ?b :: ?R2 => perm_find a R2 (pre ++ [b]) k
  end.
Ltac perm :=
  simpl;
  repeat match goal with
  | |- Permutation ?L ?L => apply Permutation_refl
  | |- Permutation (?a :: ?L) (?a :: ?R) => apply perm_skip
  | |- Permutation (?a :: ?L) ?R =>
      perm_find a R (@nil id) ltac:(fun pre R2 => apply (Permutation_cons_app pre R2 a); simpl)
  end.

(* ------------------------------------------------------------------------------------------------ *)
(* thread tables                                                                                      *)
(* ------------------------------------------------------------------------------------------------ *)
Section Threads.
Variables (K V : Type).
Notation thread := (thread K V).

Lemma get_set_same : forall me (th th' : thread) l,
  get_thread me l = Some th -> get_thread me (set_thread me th' l) = Some th'.
Proof.
  intros me th th'. unfold get_thread, set_thread.
  induction l as [|[u thu] l IH]; simpl; intros H; [discriminate|].
  destruct (u =? me) eqn:E; simpl.
  - rewrite Nat.eqb_refl. reflexivity.
  - rewrite E. auto.
Qed.

Lemma get_set_other : forall me u (th' : thread) l,
  u <> me -> get_thread u (set_thread me th' l) = get_thread u l.
Proof.
  intros me u th' l Hne. unfold get_thread, set_thread.
  induction l as [|[w thw] l IH]; simpl; auto.
  destruct (w =? me) eqn:E; simpl.
  - apply Nat.eqb_eq in E. subst w.
    assert (E2 : me =? u = false) by (apply Nat.eqb_neq; auto).
    rewrite E2. auto.
  - destruct (w =? u); auto.
Qed.

Lemma map_fst_set_thread : forall me (th' : thread) l, map fst (set_thread me th' l) = map fst l.
Proof.
  intros me th' l. unfold set_thread. induction l as [|[w thw] l IH]; simpl; auto.
  destruct (w =? me) eqn:E; simpl; f_equal; auto.
  apply Nat.eqb_eq in E. auto.
Qed.

Lemma get_set_exists : forall me u (th th' : thread) l,
  get_thread me l = Some th ->
  (exists x, get_thread u l = Some x) -> exists x, get_thread u (set_thread me th' l) = Some x.
Proof.
  intros me u th th' l Hme [x Hx]. destruct (Nat.eq_dec u me) as [->|Hne].
  - exists th'. eapply get_set_same; eauto.
  - exists x. rewrite get_set_other; auto.
Qed.

End Threads.

(* ------------------------------------------------------------------------------------------------ *)
(* Delete stacks                                                                                      *)
(* ------------------------------------------------------------------------------------------------ *)
Definition fkids (f : frame) : list id := opt_list (fl f) ++ opt_list (fc f).

(* the outermost activation is at [root] *)
Definition bottom_ok (root : id) (stk : list frame) : Prop :=
  match rev stk with [] => True | b :: _ => fp b = root end.

Lemma rev_nil_inv : forall (A : Type) (l : list A), rev l = [] -> l = [].
Proof. intros A l H. rewrite <- (rev_involutive l). rewrite H. reflexivity. Qed.

Lemma frames_nodes_bottom : forall root stk,
  stk <> [] -> bottom_ok root stk -> frames_nodes stk = root :: flat_map fkids stk.
Proof.
  intros root stk Hne Hb. unfold frames_nodes, bottom_ok in *.
  destruct (rev stk) as [|b tl] eqn:E.
  - exfalso. apply Hne. apply rev_nil_inv. exact E.
  - subst. reflexivity.
Qed.

Lemma bottom_ok_tail : forall root f rest, bottom_ok root (f :: rest) -> bottom_ok root rest.
Proof. unfold bottom_ok. simpl. intros root f rest. destruct (rev rest); simpl; auto. Qed.

Lemma bottom_ok_push : forall root f stk, bottom_ok root stk -> stk <> [] -> bottom_ok root (f :: stk).
Proof.
  unfold bottom_ok. simpl. intros root f stk Hb Hne. destruct (rev stk) as [|b tl] eqn:E; simpl; auto.
  exfalso. apply Hne. apply rev_nil_inv. exact E.
Qed.

Lemma bottom_ok_single : forall root f, fp f = root -> bottom_ok root [f].
Proof. unfold bottom_ok. simpl. auto. Qed.

Lemma bottom_ok_replace : forall root f f' rest,
  bottom_ok root (f :: rest) -> fp f' = fp f -> bottom_ok root (f' :: rest).
Proof. unfold bottom_ok. simpl. intros root f f' rest. destruct (rev rest); simpl; congruence. Qed.

Lemma kids_unlocks : forall f right l,
  unlock_frame_kids f right l = unlocks (opt_list (fc f) ++ opt_list (fl f) ++ opt_list right) l.
Proof.
  intros f right l. unfold unlock_frame_kids, unlock_opt.
  destruct (fc f); destruct (fl f); destruct right; reflexivity.
Qed.

Section LockProof.
Variables (K V : Type) (ltb : K -> K -> bool).
Notation pc := (pc K V).
Notation st := (st K V).
Notation itree := (itree K V).
Notation out := (out K V).
Notation thread := (thread K V).

(* ------------------------------------------------------------------------------------------------ *)
(* the strengthened invariant                                                                         *)
(* ------------------------------------------------------------------------------------------------ *)
Definition pc_wf2 (root : id) (p : pc) : Prop :=
  match p with
  | WantRoot _ r => r = root
  | DelWantLeft _ stk => bottom_ok root stk /\ match stk with f :: _ => fl f = None /\ fc f = None | [] => False end
  | DelWantChild _ stk => bottom_ok root stk /\ match stk with f :: _ => fc f = None | [] => False end
  | DelWantRight _ stk => bottom_ok root stk /\ stk <> []
  | _ => True
  end.

Definition lock_inv2 (s : st) : Prop :=
  lock_inv s /\ forall t th, get_thread t (ths s) = Some th -> pc_wf2 (nid (tr s)) (tpc th).

Lemma lock_inv2_lock_inv : forall s, lock_inv2 s -> lock_inv s.
Proof. intros s [H _]. exact H. Qed.

Lemma pc_wf2_wf : forall root p, pc_wf2 root p -> pc_wf p.
Proof.
  intros root p.
  destruct p as [ | | | | | | | |o stk|o stk|o stk| | ]; simpl; auto.
  - intros [_ H]. destruct stk; [tauto | discriminate].
  - intros [_ H]. destruct stk; [tauto | discriminate].
  - tauto.
Qed.

Lemma pc_wf2_noT : forall root root' p, pc_holds_T p = false -> pc_wf2 root p -> pc_wf2 root' p.
Proof. intros root root' p. destruct p; simpl; auto; discriminate. Qed.

(* ------------------------------------------------------------------------------------------------ *)
(* the root identity is stable under the tree updates made below the root lock                        *)
(* ------------------------------------------------------------------------------------------------ *)
Lemma upd_nid : forall x (n n' t t' : itree),
  upd x (fun _ => Ok n') t = Ok t' -> find x t = Some n -> nid n' = nid n -> nid t' = nid t.
Proof.
  intros x n n' t t' Hu Hf Hn. destruct t as [i nx es | i cs]; simpl in Hu, Hf.
  - destruct (i =? x).
    + inversion Hu; inversion Hf; subst. exact Hn.
    + inversion Hu; subst. reflexivity.
  - destruct (i =? x).
    + inversion Hu; inversion Hf; subst. exact Hn.
    + match type of Hu with bind ?e _ = _ => destruct e as [cs'|]; simpl in Hu; [|discriminate] end.
      inversion Hu; subst. reflexivity.
Qed.

Ltac bind_inv H :=
  match type of H with
  | bind ?e _ = Ok _ => let E := fresh "E" in destruct e eqn:E; [cbn [bind] in H | discriminate H]
  end.

Lemma irebalance_nid : forall order f (t t' : itree) small,
  irebalance order f t = Ok (t', small) -> nid t' = nid t.
Proof.
  intros order f t t' small H. unfold irebalance in H.
  destruct (find (fp f) t) as [[i nx es | pi cs]|] eqn:Hf; try discriminate H.
  bind_inv H. destruct a as [s0 child].
  bind_inv H. destruct a as [cs' sm].
  bind_inv H. inversion H; subst.
  eapply upd_nid; eauto.
Qed.

(* ------------------------------------------------------------------------------------------------ *)
(* shape of the atomic blocks                                                                         *)
(* ------------------------------------------------------------------------------------------------ *)
Ltac crunch H :=
  repeat (match type of H with
  | bind ?e _ = Ok _ => let E := fresh "E" in destruct e eqn:E; [cbn [bind] in H | discriminate H]
  | (let '(_, _) := ?p in _) = Ok _ => destruct p
  | (if ?c then _ else _) = Ok _ => let E := fresh "E" in destruct c eqn:E
  | match ?e with _ => _ end = Ok _ => let E := fresh "E" in destruct e eqn:E; try discriminate H
  end).

Definition shape (n : id) (root : id) (tmx : option tid) (l : list (id * tid)) (o : out) : Prop :=
  otm o = tmx /\ nid (otr o) = root /\ pc_holds_T (opc o) = false /\
  (forall r, pc_wf2 r (opc o)) /\
  (forall r, In (EReturn r) (oev o) -> opc o = Idle) /\
  exists R, olk o = unlocks R l /\ Permutation [n] (R ++ pc_nodes (opc o)).

Ltac shape_finish n :=
  unfold shape; simpl;
  (split; [reflexivity|]);
  (split; [first [reflexivity | eapply upd_nid; eauto; reflexivity]|]);
  (split; [reflexivity|]);
  (split; [auto|]);
  (split; [intros r Hr; first [reflexivity | tauto | (destruct Hr as [Hr|Hr]; [discriminate Hr | tauto])]|]);
  first [ exists [n]; split; [reflexivity | perm] | exists []; split; [reflexivity | perm] ].

Lemma ins_descend_shape : forall o n t l fr tmx out,
  ins_descend ltb o n t l fr tmx = Ok out -> shape n (nid t) tmx l out.
Proof.
  intros o n t l fr tmx out H. unfold ins_descend, mk in H.
  crunch H.
  all: inversion H; subst; clear H; shape_finish n.
Qed.

Lemma sea_descend_shape : forall o n t l fr tmx out,
  sea_descend ltb o n t l fr tmx = Ok out -> shape n (nid t) tmx l out.
Proof.
  intros o n t l fr tmx out H. unfold sea_descend, mk in H.
  crunch H.
  all: inversion H; subst; clear H; shape_finish n.
Qed.

Lemma del_descend_shape : forall (o : cop K V) stk n (t : itree) p,
  del_descend ltb o stk n t = Ok p ->
  exists idx, let stk' := {| fp := n; fidx := idx; fl := None; fc := None |} :: stk in
              p = DelWantLeft o stk' \/ p = DelWantChild o stk'.
Proof.
  intros o stk n t p H. unfold del_descend in H.
  crunch H; inversion H; subst; clear H; eexists; simpl; destruct (0 <? a); eauto.
Qed.

Definition unwind_post (root : id) (tmx : option tid) (o : cop K V) (l : list (id * tid)) (held : list id) (out : out) : Prop :=
  (forall r, In (EReturn r) (oev out) -> opc out = Idle) /\
  ((opc out = Idle /\ otm out = None) \/
   (otm out = tmx /\ nid (otr out) = root /\ exists stk', opc out = DelWantRight o stk' /\ pc_wf2 root (opc out))) /\
  exists R, olk out = unlocks R l /\ Permutation held (R ++ pc_nodes (opc out)).

Lemma kids_perm : forall root f right (T : list id),
  Permutation (root :: opt_list right ++ fkids f ++ T)
              ((opt_list (fc f) ++ opt_list (fl f) ++ opt_list right) ++ root :: T).
Proof.
  intros root f right T. unfold fkids.
  destruct (fc f); destruct (fl f); destruct right; perm.
Qed.

Lemma unwind_shape : forall order fuel (o : cop K V) stk small right (t : itree) l fr tmx out,
  unwind order fuel o stk small right t l fr tmx = Ok out ->
  (stk = [] -> right = None) ->
  bottom_ok (nid t) stk ->
  unwind_post (nid t) tmx o l (nid t :: opt_list right ++ flat_map fkids stk) out.
Proof.
  intros order fuel. induction fuel as [|fuel IH]; intros o stk small right t l fr tmx out H Hr Hb; simpl in H.
  - discriminate H.
  - destruct stk as [|f rest].
    + unfold mk in H. inversion H; subst; clear H. rewrite (Hr eq_refl). unfold unwind_post. simpl.
      split; [auto|]. split; [left; auto|].
      exists [nid t]. split; [reflexivity | perm].
    + assert (Hnext : forall small' t', nid t' = nid t ->
                unwind order fuel o rest small' None t' (unlock_frame_kids f right l) fr tmx = Ok out ->
                unwind_post (nid t) tmx o l (nid t :: opt_list right ++ flat_map fkids (f :: rest)) out).
      { intros small' t' Hn Hu. apply IH in Hu; auto.
        - rewrite Hn in Hu. destruct Hu as [U1 [U2 [R [U3 U4]]]].
          split; [exact U1|]. split; [exact U2|].
          exists ((opt_list (fc f) ++ opt_list (fl f) ++ opt_list right) ++ R).
          split.
          + rewrite unlocks_app. rewrite <- kids_unlocks. exact U3.
          + simpl. rewrite <- app_assoc. simpl in U4.
            eapply perm_trans; [apply kids_perm|].
            apply Permutation_app_head. exact U4.
        - rewrite Hn. eapply bottom_ok_tail; eauto. }
      destruct (negb small) eqn:Es.
      * eapply (Hnext false t); [reflexivity | exact H].
      * destruct (find (fp f) t) as [[i nx es | i cs]|] eqn:Hf; try discriminate H.
        destruct ((fidx f + 1 <? length cs) && match right with None => true | Some _ => false end) eqn:Ec.
        -- unfold mk in H. inversion H; subst; clear H.
           apply andb_prop in Ec. destruct Ec as [_ Ec]. destruct right; [discriminate Ec|].
           unfold unwind_post. simpl.
           split; [tauto|]. split.
           ++ right. repeat split; auto. eexists; split; [reflexivity|]. split; [auto | discriminate].
           ++ exists []. split; [reflexivity|]. simpl.
              rewrite (frames_nodes_bottom (nid t) (f :: rest)); [reflexivity | discriminate | auto].
        -- bind_inv H. destruct a as [t' small'].
           eapply (Hnext small' t'); [eapply irebalance_nid; eauto | exact H].
Qed.

(* ------------------------------------------------------------------------------------------------ *)
(* what an atomic block must satisfy, and why that re-establishes the invariant                       *)
(* ------------------------------------------------------------------------------------------------ *)
Definition l0_of (s : st) (me : tid) (tg : option (option id)) : list (id * tid) :=
  match tg with Some (Some x) => (x, me) :: lk s | _ => lk s end.
Definition tm0_of (s : st) (me : tid) (tg : option (option id)) : option tid :=
  match tg with Some None => Some me | _ => tm s end.

Definition block_ok (s : st) (me : tid) (tg : option (option id)) (o : out) : Prop :=
  (exists R, olk o = unlocks R (l0_of s me tg) /\
             Permutation (held_by me (l0_of s me tg)) (R ++ pc_nodes (opc o))) /\
  (otm o = Some me <-> pc_holds_T (opc o) = true) /\
  (otm o = tm0_of s me tg \/ (otm o = None /\ tm0_of s me tg = Some me)) /\
  pc_wf2 (nid (otr o)) (opc o) /\
  (nid (otr o) = nid (tr s) \/ tm0_of s me tg = Some me) /\
  (forall r, In (EReturn r) (oev o) -> opc o = Idle).

Lemma holder_none : forall x (l : list (id * tid)), holder x l = None -> ~ In x (map fst l).
Proof.
  intros x l. unfold holder. induction l as [|[y u] l IH]; simpl; intros H; [tauto|].
  destruct (y =? x) eqn:E; [discriminate H|].
  apply Nat.eqb_neq in E. intros [H1|H1]; [congruence | apply IH; auto].
Qed.

Lemma l0_facts : forall (s : st) me tg,
  NoDup (map fst (lk s)) -> is_free s tg = true ->
  NoDup (map fst (l0_of s me tg)) /\
  (forall x u, In (x, u) (l0_of s me tg) -> u = me \/ In (x, u) (lk s)) /\
  (forall u, u <> me -> held_by u (l0_of s me tg) = held_by u (lk s)).
Proof.
  intros s me tg Hnd Hfree. destruct tg as [[x|]|]; simpl; try (repeat split; auto; fail).
  simpl in Hfree. destruct (holder x (lk s)) eqn:Hh; [discriminate Hfree|].
  apply holder_none in Hh.
  split; [constructor; auto|]. split.
  - intros y u [H|H]; [inversion H; auto | auto].
  - intros u Hu. rewrite held_by_cons.
    destruct (me =? u) eqn:E; [apply Nat.eqb_eq in E; congruence | reflexivity].
Qed.

Lemma tm0_facts : forall (s : st) me tg,
  is_free s tg = true ->
  (tm0_of s me tg = tm s \/ (tm0_of s me tg = Some me /\ tm s = None)).
Proof.
  intros s me tg Hfree. destruct tg as [[x|]|]; simpl; auto.
  simpl in Hfree. destruct (tm s); [discriminate Hfree | auto].
Qed.

Lemma block_ok_inv : forall (s : st) me th th' tg (o : out),
  lock_inv2 s -> get_thread me (ths s) = Some th -> is_free s tg = true ->
  block_ok s me tg o -> tpc th' = opc o ->
  lock_inv2 {| tr := otr o; tm := otm o; lk := olk o; fresh := ofresh o; ths := set_thread me th' (ths s) |}.
Proof.
  intros s me th th' tg o [[Hnd [Hndt [Hlk [Htm Hth]]]] Hwf2] Hme Hfree
         [[R [B1 B2]] [B3 [B4 [B5 [B6 B7]]]]] Hpc.
  destruct (l0_facts s me tg Hnd Hfree) as [L1 [L2 L3]].
  destruct (unlocks_ok me R _ _ L1 B2) as [U1 [U2 [U3 U4]]].
  rewrite <- B1 in U1, U2, U3, U4.
  pose proof (tm0_facts s me tg Hfree) as T0.
  assert (Hothers : forall u, u <> me -> (otm o = Some u <-> tm s = Some u)).
  { intros u Hu. destruct B4 as [B4|[B4 B4']]; destruct T0 as [T0|[T0 T0']]; rewrite B4; split; intros; congruence. }
  split; [split; [|split; [|split; [|split]]]|]; simpl.
  - exact U1.
  - rewrite map_fst_set_thread. exact Hndt.
  - intros x t Hin. apply U2 in Hin. apply L2 in Hin.
    eapply get_set_exists; eauto. destruct Hin as [->|Hin]; eauto.
  - intros t Ht. eapply get_set_exists; eauto.
    destruct (Nat.eq_dec t me) as [->|Hne]; eauto.
    apply Htm. apply Hothers; auto.
  - intros t th1 Hg. destruct (Nat.eq_dec t me) as [->|Hne].
    + rewrite (get_set_same _ _ me th th' (ths s) Hme) in Hg. inversion Hg; subst th1.
      rewrite Hpc. split; [eapply pc_wf2_wf; eauto|]. split; auto.
    + rewrite get_set_other in Hg by auto.
      destruct (Hth t th1 Hg) as [H1 [H2 H3]].
      split; auto. split.
      * rewrite U3 by auto. rewrite L3 by auto. exact H2.
      * rewrite <- H3. apply Hothers. auto.
  - intros t th1 Hg. destruct (Nat.eq_dec t me) as [->|Hne].
    + rewrite (get_set_same _ _ me th th' (ths s) Hme) in Hg. inversion Hg; subst th1.
      rewrite Hpc. exact B5.
    + rewrite get_set_other in Hg by auto.
      pose proof (Hwf2 t th1 Hg) as W. simpl in W.
      destruct B6 as [B6|B6]; [rewrite B6; exact W|].
      eapply pc_wf2_noT; [|exact W].
      destruct (Hth t th1 Hg) as [_ [_ H3]].
      destruct (pc_holds_T (tpc th1)); auto.
      exfalso. assert (Ht : tm s = Some t) by (apply H3; reflexivity).
      destruct T0 as [T0|[T0 T0']]; congruence.
Qed.

Lemma frames_set_fl : forall root f rest x,
  bottom_ok root (f :: rest) -> fl f = None ->
  Permutation (x :: frames_nodes (f :: rest)) (frames_nodes (set_fl f x :: rest)).
Proof.
  intros root f rest x Hb Hfl.
  rewrite (frames_nodes_bottom root (f :: rest)) by (auto; discriminate).
  rewrite (frames_nodes_bottom root (set_fl f x :: rest));
    [| discriminate | eapply bottom_ok_replace; eauto].
  simpl. unfold fkids. simpl. rewrite Hfl. simpl. perm.
Qed.

Lemma frames_set_fc : forall root f rest x,
  bottom_ok root (f :: rest) -> fc f = None ->
  Permutation (x :: frames_nodes (f :: rest)) (frames_nodes (set_fc f x :: rest)).
Proof.
  intros root f rest x Hb Hfc.
  rewrite (frames_nodes_bottom root (f :: rest)) by (auto; discriminate).
  rewrite (frames_nodes_bottom root (set_fc f x :: rest));
    [| discriminate | eapply bottom_ok_replace; eauto].
  simpl. unfold fkids. simpl. rewrite Hfc. destruct (fl f); perm.
Qed.

Lemma frames_push : forall root n i stk,
  bottom_ok root stk -> stk <> [] ->
  frames_nodes ({| fp := n; fidx := i; fl := None; fc := None |} :: stk) = frames_nodes stk.
Proof.
  intros root n i stk Hb Hne.
  rewrite (frames_nodes_bottom root stk) by auto.
  rewrite (frames_nodes_bottom root (_ :: stk)); [reflexivity | discriminate | apply bottom_ok_push; auto].
Qed.

Lemma unwind_block : forall (s : st) me x (o : cop K V) root held (o1 : out),
  unwind_post root (tm s) o ((x, me) :: lk s) held o1 ->
  Permutation (x :: held_by me (lk s)) held ->
  tm s = Some me ->
  block_ok s me (Some (Some x)) o1.
Proof.
  intros s me x o root held o1 [U1 [U2 [R [U3 U4]]]] HP HTm.
  unfold block_ok. cbv beta iota delta [l0_of tm0_of].
  split.
  { exists R. split; [exact U3|]. rewrite held_by_cons, Nat.eqb_refl.
    eapply perm_trans; eauto. }
  destruct U2 as [[A1 A2] | [A1 [A2 [stk' [A3 A4]]]]].
  - rewrite A1, A2. simpl.
    split; [split; intro X; congruence|]. split; [right; auto|]. split; [exact I|].
    split; [right; auto|]. auto.
  - rewrite A1. rewrite A3 in *. simpl pc_holds_T.
    split; [split; intro X; congruence|]. split; [left; auto|]. split; [rewrite A2; exact A4|].
    split; [right; auto|]. exact U1.
Qed.

Lemma del_block : forall (s : st) me x (o : cop K V) stk n (t tr' : itree) p root fr',
  del_descend ltb o stk n t = Ok p ->
  (forall idx, bottom_ok root ({| fp := n; fidx := idx; fl := None; fc := None |} :: stk)) ->
  (forall idx, Permutation (x :: held_by me (lk s))
                 (frames_nodes ({| fp := n; fidx := idx; fl := None; fc := None |} :: stk))) ->
  tm s = Some me -> nid tr' = root ->
  block_ok s me (Some (Some x))
    {| otr := tr'; olk := (x, me) :: lk s; ofresh := fr'; otm := tm s; opc := p; oev := [] |}.
Proof.
  intros s me x o stk n t tr' p root fr' Hd Hb HP HTm Hroot.
  apply del_descend_shape in Hd. destruct Hd as [idx Hd]. simpl in Hd.
  unfold block_ok. cbv beta iota delta [l0_of tm0_of]. cbn [otr olk ofresh otm opc oev].
  split.
  { exists []. split; [reflexivity|]. rewrite held_by_cons, Nat.eqb_refl.
    destruct Hd as [-> | ->]; simpl pc_nodes; simpl app; apply HP. }
  rewrite Hroot.
  destruct Hd as [-> | ->]; simpl pc_holds_T; simpl pc_wf2.
  all: (split; [split; intro X; congruence|]); (split; [left; reflexivity|]);
       (split; [split; [apply Hb | auto]|]); (split; [right; assumption|]); simpl; tauto.
Qed.

Lemma Ok_inj : forall (A : Type) (a b : A), Ok a = Ok b -> a = b.
Proof. intros A a b H. inversion H. reflexivity. Qed.

Lemma unlock1 : forall x (l : list (id * tid)), unlock x l = unlocks [x] l.
Proof. reflexivity. Qed.

Opaque unwind.

Lemma cstep_block : forall order (s s' : st) me acq ev,
  lock_inv2 s -> cstep ltb order s me = Stepped s' acq ev ->
  exists th th' tg o,
    get_thread me (ths s) = Some th /\ is_free s tg = true /\ tpc th' = opc o /\ ev = oev o /\
    s' = {| tr := otr o; tm := otm o; lk := olk o; fresh := ofresh o; ths := set_thread me th' (ths s) |} /\
    block_ok s me tg o.
Proof.
  intros order s s' me acq ev Hinv H.
  unfold cstep in H.
  destruct (get_thread me (ths s)) as [th|] eqn:Hme; [|discriminate H].
  destruct (target s (tpc th)) as [tg|] eqn:Htg; [|discriminate H].
  destruct (negb (is_free s tg)) eqn:Hfree; [discriminate H|].
  apply negb_false_iff in Hfree.
  destruct Hinv as [Hinv Hwf2].
  pose proof Hinv as [Hnd [Hndt [Hlk [Htm Hth]]]].
  destruct (Hth me th Hme) as [Hwf [HP HT]].
  pose proof (Hwf2 me th Hme) as Hw2.
  cbv zeta in H.
  assert (Hgen : forall o : out,
            block_ok s me tg o ->
            Stepped {| tr := otr o; tm := otm o; lk := olk o; fresh := ofresh o;
                       ths := set_thread me (if existsb (fun e => match e with EReturn _ => true | _ => false end) (oev o)
                                then {| prog := tl (prog th); tpc := opc o; results := flat_map (fun e => match e with EReturn r => [r] | _ => [] end) (oev o) ++ results th |}
                                else {| prog := prog th; tpc := opc o; results := results th |}) (ths s) |} tg (oev o) = Stepped s' acq ev ->
            exists th0 th' tg0 o0,
              Some th = Some th0 /\ is_free s tg0 = true /\ tpc th' = opc o0 /\ ev = oev o0 /\
              s' = {| tr := otr o0; tm := otm o0; lk := olk o0; fresh := ofresh o0; ths := set_thread me th' (ths s) |} /\
              block_ok s me tg0 o0).
  { intros o Hb Hs. inversion Hs; subst. do 4 eexists. split; [reflexivity|]. split; [exact Hfree|].
    split; [|split; [reflexivity|split; [reflexivity|exact Hb]]].
    destruct (existsb _ (oev o)); reflexivity. }
  destruct (tpc th) as [ |o|o r|o lft rgt|o p c index|o p c r|o leaf mode index|o p c|o stk|o stk|o stk|leaf i n acc|leaf nxt n acc] eqn:Hpc.
  all: cbv beta iota in H; simpl in Htg; crunch Htg; inversion Htg; subst tg; clear Htg.
  all: match type of H with match ?B with _ => _ end = _ => destruct B as [[o1|]|] eqn:HB; try discriminate H end.
  all: match goal with o : out |- _ => apply (Hgen o); [clear H Hgen | exact H] end.
  all: unfold mk in HB; crunch HB.
  all: try (inversion HB; subst; clear HB).
  all: try match goal with o : out, E : _ = Ok ?o |- _ => crunch E end.
  all: simpl in HT, HP, Hw2.
  all: try (assert (HTm : tm s = Some me) by (apply HT; reflexivity)).
  all: try (assert (HTn : tm s <> Some me) by (intro HTx; apply HT in HTx; discriminate HTx)).
  all: try match goal with
       | E : ins_descend _ _ _ _ _ _ _ = Ok ?o |- block_ok _ _ _ ?o =>
           apply ins_descend_shape in E; destruct E as (S1 & S2 & S3 & S4 & S5 & R & S6 & S7)
       | E : sea_descend _ _ _ _ _ _ _ = Ok ?o |- block_ok _ _ _ ?o =>
           apply sea_descend_shape in E; destruct E as (S1 & S2 & S3 & S4 & S5 & R & S6 & S7)
       end.
  all: try match goal with
       | S6 : olk ?o = unlocks ?R _ |- block_ok _ _ _ ?o =>
         unfold block_ok; cbv beta iota delta [l0_of tm0_of];
         rewrite ?unlock1 in S6; rewrite <- ?unlocks_app in S6;
         split; [eexists; split; [exact S6|]; rewrite ?held_by_cons, ?Nat.eqb_refl;
                 rewrite HP; simpl; rewrite <- ?app_assoc; simpl; rewrite <- S7; perm |];
         rewrite S1, S3;
         (split; [split; intro X; congruence|]);
         (split; [first [left; reflexivity | right; split; [reflexivity | assumption]]|]);
         (split; [apply S4|]);
         (split; [first [left; rewrite S2; first [reflexivity | eapply upd_nid; eauto; reflexivity] | right; assumption] | exact S5])
       end.
  all: try match goal with
       | E : Ok _ = Ok ?o |- block_ok _ _ _ ?o =>
         apply Ok_inj in E; subst; unfold block_ok; cbv beta iota delta [l0_of tm0_of];
         cbn [otr olk ofresh otm opc oev]; simpl pc_holds_T;
         rewrite ?unlock1; rewrite <- ?unlocks_app;
         (split; [first [exists []; split; [reflexivity|] | eexists; split; [reflexivity|]];
                  rewrite ?held_by_cons, ?Nat.eqb_refl; rewrite HP; perm |]);
         (split; [split; intro X; congruence|]);
         (split; [first [left; reflexivity | right; split; [reflexivity | assumption]]|]);
         (split; [simpl; first [exact I | reflexivity | idtac]|]);
         (split; [first [left; first [reflexivity | eapply upd_nid; eauto; reflexivity] | right; first [assumption | reflexivity]] | ]);
         simpl; intros r' Hr; first [reflexivity | tauto | (destruct Hr as [Hr|Hr]; [discriminate Hr | tauto])]
       end.
  - (* WantRoot (CDelete k), internal root *)
    apply Ok_inj in E. subst o1.
    eapply del_block; eauto.
    + intros idx. apply bottom_ok_single. simpl. exact Hw2.
    + intros idx. unfold frames_nodes. simpl. rewrite HP. perm.
  - (* DelWantLeft *)
    apply Ok_inj in E1. subst o1. destruct Hw2 as [Hb [Hfl Hfc]].
    unfold block_ok. cbv beta iota delta [l0_of tm0_of]. cbn [otr olk ofresh otm opc oev].
    simpl pc_holds_T. simpl pc_nodes.
    split.
    { exists []. split; [reflexivity|]. rewrite held_by_cons, Nat.eqb_refl. simpl app.
      rewrite HP. eapply frames_set_fl; eauto. }
    split; [split; intro X; congruence|]. split; [left; reflexivity|].
    split. { simpl. split; [eapply bottom_ok_replace; eauto | exact Hfc]. }
    split; [left; reflexivity|]. simpl; tauto.
  - (* DelWantChild, the child is a leaf: delete and unwind *)
    destruct Hw2 as [Hb Hfc].
    assert (Hn : nid a0 = nid (tr s)) by (eapply upd_nid; eauto; reflexivity).
    assert (Hb1 : bottom_ok (nid (tr s)) (set_fc f a :: l)) by (eapply bottom_ok_replace; eauto).
    apply unwind_shape in E1; [ | auto | rewrite Hn; exact Hb1 ].
    eapply unwind_block; [exact E1 | | exact HTm].
    rewrite Hn. simpl app. rewrite HP.
    eapply perm_trans; [eapply frames_set_fc; eauto|].
    rewrite (frames_nodes_bottom (nid (tr s))); [reflexivity | discriminate | exact Hb1].
  - (* DelWantChild, the child is internal: one more activation *)
    destruct Hw2 as [Hb Hfc].
    assert (Hb1 : bottom_ok (nid (tr s)) (set_fc f a :: l)) by (eapply bottom_ok_replace; eauto).
    apply Ok_inj in E1. subst o1.
    eapply del_block; eauto.
    + intros idx. apply bottom_ok_push; [exact Hb1 | discriminate].
    + intros idx. rewrite (frames_push (nid (tr s))); [ | exact Hb1 | discriminate].
      rewrite HP. eapply frames_set_fc; eauto.
  - (* DelWantRight *)
    destruct Hw2 as [Hb _].
    apply unwind_shape in E1; [ | discriminate | exact Hb].
    eapply unwind_block; [exact E1 | | exact HTm].
    rewrite HP. rewrite (frames_nodes_bottom (nid (tr s))); [ | discriminate | exact Hb].
    perm.
Qed.

Transparent unwind.

(* ------------------------------------------------------------------------------------------------ *)
(* the invariant                                                                                      *)
(* ------------------------------------------------------------------------------------------------ *)
Lemma get_thread_init : forall (progs : list (tid * list (cop K V))) t th,
  get_thread t (map (fun p => (fst p, {| prog := snd p; tpc := Idle; results := [] |})) progs) = Some th ->
  tpc th = Idle.
Proof.
  intros progs t th. unfold get_thread. induction progs as [|[u p] progs IH]; simpl; [discriminate|].
  destruct (u =? t); simpl; [intros H; inversion H; reflexivity | exact IH].
Qed.

Theorem lock_inv2_init : forall (progs : list (tid * list (cop K V))),
  NoDup (map fst progs) -> lock_inv2 (init_st progs).
Proof.
  intros progs Hnd. unfold lock_inv2, lock_inv, init_st. simpl.
  split; [split; [constructor | split; [| split; [tauto | split; [discriminate|]]]]|].
  - rewrite map_map. simpl. exact Hnd.
  - intros t th Hg. apply get_thread_init in Hg. rewrite Hg. simpl.
    split; [exact I|]. split; [constructor|]. split; discriminate.
  - intros t th Hg. apply get_thread_init in Hg. rewrite Hg. exact I.
Qed.

Theorem lock_inv2_step : forall (order : nat) (s s' : st) (me : tid) acq ev,
  lock_inv2 s -> cstep ltb order s me = Stepped s' acq ev -> lock_inv2 s'.
Proof.
  intros order s s' me acq ev Hinv Hs.
  destruct (cstep_block order s s' me acq ev Hinv Hs) as (th & th' & tg & o & H1 & H2 & H3 & H4 & H5 & H6).
  subst s'. eapply block_ok_inv; eauto.
Qed.

Theorem lock_inv2_exec : forall order sched (s : st),
  lock_inv2 s -> lock_inv2 (fst (exec ltb order s sched)).
Proof.
  intros order sched. induction sched as [|t rest IH]; intros s Hinv; simpl; [exact Hinv|].
  destruct (cstep ltb order s t) as [ | | |s1 acq ev| ] eqn:Hs; simpl; try exact Hinv.
  pose proof (IH s1 (lock_inv2_step order s s1 t acq ev Hinv Hs)) as H.
  destruct (exec ltb order s1 rest) as [s2 h]. simpl in *. exact H.
Qed.

(* ---- the theorems of the task ---- *)

Theorem lock_inv_init : forall (progs : list (tid * list (cop K V))),
  NoDup (map fst progs) -> lock_inv (init_st progs).
Proof. intros progs H. apply lock_inv2_lock_inv. apply lock_inv2_init. exact H. Qed.

(* stated for lock_inv2: false for lock_inv alone, see the counterexamples at the end *)
Theorem lock_inv_step : forall (order : nat) (s s' : st) (me : tid) acq ev,
  lock_inv2 s -> cstep ltb order s me = Stepped s' acq ev -> lock_inv s'.
Proof. intros. eapply lock_inv2_lock_inv. eapply lock_inv2_step; eauto. Qed.

Theorem lock_inv_exec : forall order sched (s : st),
  lock_inv2 s -> lock_inv (fst (exec ltb order s sched)).
Proof. intros. apply lock_inv2_lock_inv. apply lock_inv2_exec. assumption. Qed.

(* every state reachable from an initial state satisfies lock_inv (and lock_inv2) *)
Corollary lock_inv_reachable : forall order sched (progs : list (tid * list (cop K V))),
  NoDup (map fst progs) -> lock_inv (fst (exec ltb order (init_st progs) sched)).
Proof. intros. apply lock_inv_exec. apply lock_inv2_init. assumption. Qed.

(* C09: when a call returns, the calling thread holds nothing *)
Theorem returns_hold_nothing : forall order (s s' : st) me acq ev r,
  lock_inv2 s -> cstep ltb order s me = Stepped s' acq ev -> In (EReturn r) ev ->
  held_by me (lk s') = [] /\ tm s' <> Some me.
Proof.
  intros order s s' me acq ev r Hinv Hs Hr.
  pose proof (lock_inv2_step order s s' me acq ev Hinv Hs) as [Hinv' _].
  destruct (cstep_block order s s' me acq ev Hinv Hs) as (th & th' & tg & o & H1 & H2 & H3 & H4 & H5 & H6).
  destruct H6 as (_ & _ & _ & _ & _ & B7).
  subst ev. apply B7 in Hr.
  destruct Hinv' as (_ & _ & _ & _ & Hth).
  assert (Hg : get_thread me (ths s') = Some th') by (subst s'; simpl; eapply get_set_same; eauto).
  destruct (Hth me th' Hg) as (_ & HP & HT).
  rewrite H3, Hr in HP, HT. simpl in HP, HT.
  split.
  - apply Permutation_sym in HP. apply Permutation_nil in HP. exact HP.
  - intro X. apply HT in X. discriminate X.
Qed.

(* C09/C10: a resting cursor or a thread inside an Update callback holds exactly one leaf and not the tree mutex *)
Theorem cursor_holds_one_leaf : forall (s : st) t th,
  lock_inv s -> get_thread t (ths s) = Some th ->
  (forall leaf i n acc, tpc th = CurRest leaf i n acc -> held_by t (lk s) = [leaf] /\ tm s <> Some t) /\
  (forall leaf nxt n acc, tpc th = CurWantNext leaf nxt n acc -> held_by t (lk s) = [leaf] /\ tm s <> Some t) /\
  (forall o leaf m i, tpc th = UpdCallback o leaf m i -> held_by t (lk s) = [leaf] /\ tm s <> Some t).
Proof.
  intros s t th (_ & _ & _ & _ & Hth) Hg.
  destruct (Hth t th Hg) as (_ & HP & HT).
  repeat split; intros; match goal with E : tpc th = _ |- _ => rewrite E in HP, HT; simpl in HP, HT end.
  all: try (apply Permutation_sym in HP; apply Permutation_length_1_inv in HP; exact HP).
  all: intro X; apply HT in X; discriminate X.
Qed.

(* C10 *)
Theorem footprint_at_most_two : forall (s : st) t th,
  lock_inv s -> get_thread t (ths s) = Some th -> pc_is_delete (tpc th) = false ->
  length (held_by t (lk s)) <= 2 /\
  (tm s = Some t -> held_by t (lk s) = [] \/ exists o l r, tpc th = InsWantRootRight o l r /\ held_by t (lk s) = [l]).
Proof.
  intros s t th (_ & _ & _ & _ & Hth) Hg Hd.
  destruct (Hth t th Hg) as (_ & HP & HT).
  split.
  - rewrite (Permutation_length HP).
    destruct (tpc th); simpl in *; try discriminate Hd; auto.
  - intros X. apply HT in X.
    destruct (tpc th) as [ |o|o r|o lft rgt|o p c index|o p c r|o leaf mode index|o p c|o stk|o stk|o stk|leaf i n acc|leaf nxt n acc];
      simpl in *; try discriminate X; try discriminate Hd.
    + left. apply Permutation_sym in HP. apply Permutation_nil in HP. exact HP.
    + right. exists o, lft, rgt. split; [reflexivity|].
      apply Permutation_sym in HP. apply Permutation_length_1_inv in HP. exact HP.
Qed.

(* mutual exclusion *)
Theorem locks_exclusive : forall (s : st) x t1 t2,
  lock_inv s -> In x (held_by t1 (lk s)) -> In x (held_by t2 (lk s)) -> t1 = t2.
Proof.
  intros s x t1 t2 (Hnd & _) H1 H2.
  apply In_held_by in H1. apply In_held_by in H2.
  eapply NoDup_ids_functional; eauto.
Qed.

(* the lock a thread is granted was free: nobody held it before the step *)
Theorem granted_was_free : forall order (s s' : st) me x ev t,
  cstep ltb order s me = Stepped s' (Some (Some x)) ev -> ~ In x (held_by t (lk s)).
Proof.
  intros order s s' me x ev t H. unfold cstep in H.
  destruct (get_thread me (ths s)) as [th|]; [|discriminate H].
  destruct (target s (tpc th)) as [tg|]; [|discriminate H].
  destruct (negb (is_free s tg)) eqn:Hfree; [discriminate H|].
  apply negb_false_iff in Hfree.
  match type of H with match ?B with _ => _ end = _ => destruct B as [[o|]|]; try discriminate H end.
  inversion H; subst tg. simpl in Hfree.
  destruct (holder x (lk s)) eqn:Hh; [discriminate Hfree|].
  apply holder_none in Hh. intro Hin. apply In_held_by in Hin.
  apply Hh. apply in_map_iff. exists (x, t). auto.
Qed.

End LockProof.

(* ------------------------------------------------------------------------------------------------ *)
(* [lock_inv] alone is not inductive: machine-checked counterexamples (K = V = nat, order 4)          *)
(* ------------------------------------------------------------------------------------------------ *)
Section Counterexamples.
Let del5 : cop nat nat := @CDelete nat nat 5.
Let mkth (p : pc nat nat) : thread nat nat := {| prog := [del5]; tpc := p; results := [] |}.

(* (a) thread 0 waits for the left sibling although its frame already records a left sibling (2) that it
       holds.  set_fl overwrites the record: afterwards it holds 3, 1, 2 but its pc accounts for 1, 3. *)
Definition cex_a : st nat nat :=
  {| tr := INode 1 [(0, ILeaf 3 (Some 2) [(0, 0)]); (5, ILeaf 2 None [(5, 5)])];
     tm := Some 0; lk := [(1, 0); (2, 0)]; fresh := 4;
     ths := [(0, mkth (DelWantLeft del5 [{| fp := 1; fidx := 1; fl := Some 2; fc := None |}]))] |}.

(* (b) thread 0 is in Delete with a bottom frame (node 1) that is not the root (node 9).  The leaf does not
       underflow, unwind releases [nid t] = 9 instead of 1, and the call RETURNS still holding node 1. *)
Definition cex_b : st nat nat :=
  {| tr := INode 9 [(0, INode 1 [(0, ILeaf 3 (Some 2) [(0, 0); (1, 1)]);
                                  (5, ILeaf 2 None [(5, 5); (6, 6); (7, 7)])])];
     tm := Some 0; lk := [(1, 0)]; fresh := 10;
     ths := [(0, mkth (DelWantChild del5 [{| fp := 1; fidx := 1; fl := None; fc := None |}]))] |}.

Lemma cex_thread0 : forall (p : pc nat nat) t th,
  get_thread t [(0, mkth p)] = Some th -> t = 0 /\ th = mkth p.
Proof.
  intros p t th H. unfold get_thread in H. simpl in H.
  destruct t; simpl in H; [inversion H; auto | discriminate H].
Qed.

Lemma cex_a_inv : lock_inv cex_a.
Proof.
  unfold lock_inv, cex_a. simpl.
  split; [repeat constructor; simpl; intuition discriminate|].
  split; [repeat constructor; simpl; tauto|].
  split; [intros x t [H|[H|[]]]; inversion H; subst; eexists; reflexivity|].
  split; [intros t H; inversion H; subst; eexists; reflexivity|].
  intros t th H. apply cex_thread0 in H. destruct H as [-> ->]. simpl.
  split; [discriminate|]. split; [apply Permutation_refl | tauto].
Qed.

Lemma cex_b_inv : lock_inv cex_b.
Proof.
  unfold lock_inv, cex_b. simpl.
  split; [repeat constructor; simpl; intuition discriminate|].
  split; [repeat constructor; simpl; tauto|].
  split; [intros x t [H|[]]; inversion H; subst; eexists; reflexivity|].
  split; [intros t H; inversion H; subst; eexists; reflexivity|].
  intros t th H. apply cex_thread0 in H. destruct H as [-> ->]. simpl.
  split; [discriminate|]. split; [apply Permutation_refl | tauto].
Qed.

(* the step theorem as literally stated (hypothesis [lock_inv s]) is false *)
Theorem lock_inv_alone_not_inductive :
  exists (s s' : st nat nat) acq ev,
    lock_inv s /\ cstep Nat.ltb 4 s 0 = Stepped s' acq ev /\ ~ lock_inv s'.
Proof.
  exists cex_a. eexists. eexists. eexists.
  split; [exact cex_a_inv|]. split; [vm_compute; reflexivity|].
  intros (_ & _ & _ & _ & Hth).
  destruct (Hth 0 _ eq_refl) as (_ & HP & _).
  apply Permutation_length in HP. vm_compute in HP. discriminate HP.
Qed.

(* ... and so is returns_hold_nothing with hypothesis [lock_inv s] *)
Theorem returns_hold_nothing_needs_lock_inv2 :
  exists (s s' : st nat nat) acq ev r,
    lock_inv s /\ cstep Nat.ltb 4 s 0 = Stepped s' acq ev /\ In (EReturn r) ev /\ held_by 0 (lk s') = [1].
Proof.
  exists cex_b. eexists. eexists. eexists. eexists.
  split; [exact cex_b_inv|]. split; [vm_compute; reflexivity|].
  split; [left; reflexivity | reflexivity].
Qed.
End Counterexamples.

Print Assumptions lock_inv_init.
Print Assumptions lock_inv_step.
Print Assumptions lock_inv_exec.
Print Assumptions lock_inv_reachable.
Print Assumptions lock_inv2_init.
Print Assumptions lock_inv2_step.
Print Assumptions lock_inv2_exec.
Print Assumptions returns_hold_nothing.
Print Assumptions cursor_holds_one_leaf.
Print Assumptions footprint_at_most_two.
Print Assumptions locks_exclusive.
Print Assumptions granted_was_free.
Print Assumptions lock_inv_alone_not_inductive.
Print Assumptions returns_hold_nothing_needs_lock_inv2.

(* STATUS: everything above is proved, no axioms, nothing admitted.
   Deviation from the requested statements: [lock_inv_step], [lock_inv_exec] and [returns_hold_nothing]
   take [lock_inv2 s] (= lock_inv s /\ pc_wf2 for every thread) instead of [lock_inv s]; with [lock_inv s]
   they are false (lock_inv_alone_not_inductive, returns_hold_nothing_needs_lock_inv2).  [lock_inv2] holds
   initially (lock_inv2_init), is preserved by cstep/exec (lock_inv2_step, lock_inv2_exec) and implies
   [lock_inv]; cursor_holds_one_leaf, footprint_at_most_two, locks_exclusive and lock_inv_init are exactly
   as requested. *)

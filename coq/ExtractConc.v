(* ExtractConc.v — extraction of the concurrent model (ExtrOcamlBasic only). *)
From Coq Require Import ExtrOcamlBasic ZArith.
From GB Require Import Instances InstancesConc.
Extraction "gbconc.ml" c_cstep c_target c_path_of c_holder c_init c_enabled c_unfinished c_erase c_leaf_links add_cb h_inv_b c_gi_b c_gi_full_b c_all_pc_ok_b c_occ_ok_b c_all_pc_ok2_b c_abs c_lp_step c_step_spec c_all_pc_ok3_b c_nogap_b c_scan_lo_b.

(* CB_Blocks.v — property C05 ("Update(k, f) calls f exactly once, before Update returns ..."), part 1:
   the atomic blocks of [cstep] around the callback.
   In Conc.v the callback [f] of [CUpdate k f] is applied ONLY in the block of pc [UpdCallback] (the three modes
   of that block are the only places where a term [f _] occurs in [cstep]).  This file classifies the steps of a
   thread with respect to that block, from the pc-succession lemmas of LINc_Blocks.v:
     - [call_ok]      (inductive, no other invariant): a thread that is not Idle is executing the head of its program,
                      and its pc is a pc of that kind of call ([pc_for]);
     - [blk_cb]       the block of [UpdCallback o ...] runs only for [o = CUpdate k f], always returns, goes to Idle
                      and emits exactly [EReturn (RArg a)];
     - [blk_upd_noret] no other block of an Update call returns or emits any event;
     - [own_step_class] the three kinds of steps of a thread (callback step / step inside a call / return of a call
                      that is not an Update). *)
From Coq Require Import List Bool PeanoNat Lia.
From GB Require Import LinDef SoloBase LINc_Blocks LINc_Proof.
Import ListNotations.

Ltac blk_top HB :=
  match type of HB with
  | bind ?e _ = Ok _ => let E := fresh "HE" in destruct e eqn:E; [cbn [bind] in HB; inversion HB; subst; clear HB | discriminate HB]
  end.

Section CB.
Variables (K V : Type) (ltb : K -> K -> bool).
Notation itree := (itree K V).
Notation pc := (pc K V).
Notation st := (st K V).
Notation out := (out K V).
Notation thread := (thread K V).
Notation cop := (cop K V).
Notation event := (event K V).
Notation ores := (ores K V).

(* the pc of a goroutine parked inside the callback *)
Definition is_cb (p : pc) : bool := match p with UpdCallback _ _ _ _ => true | _ => false end.
Definition is_upd (o : cop) : bool := match o with CUpdate _ _ => true | _ => false end.

Lemma is_cb_true (p : pc) : is_cb p = true -> exists o leaf mode index, p = UpdCallback o leaf mode index.
Proof. destruct p; intros H; try discriminate H. eauto. Qed.

(* ------------------------------------------------------------------------------------------------ *)
(* the call in flight is the head of the program                                                     *)
(* ------------------------------------------------------------------------------------------------ *)
Definition thread_ok (th : thread) : Prop :=
  tpc th = Idle \/ exists o rest, prog th = o :: rest /\ pc_for (tpc th) o.

Definition call_ok (s : st) : Prop :=
  forall t th, get_thread t (ths s) = Some th -> thread_ok th.

Lemma call_ok_init progs : call_ok (init_st (K:=K) (V:=V) progs).
Proof.
  intros t th H. left. unfold init_st in H. cbn [ths] in H.
  eapply LockProof.get_thread_init. exact H.
Qed.

(* the thread record after a step of its own *)
Lemma commit_me_full (s : st) me th (o : out) :
  get_thread me (ths s) = Some th ->
  get_thread me (ths (commit s me th o)) =
  Some (if returned (oev o)
        then {| prog := tl (prog th); tpc := opc o;
                results := flat_map (fun e => match e with EReturn r => [r] | _ => [] end) (oev o) ++ results th |}
        else {| prog := prog th; tpc := opc o; results := results th |}).
Proof. intros Hme. unfold commit. cbn [ths]. eapply LockProof.get_set_same. exact Hme. Qed.

Theorem call_ok_step order (s s' : st) me acq ev :
  call_ok s -> cstep ltb order s me = Stepped s' acq ev -> call_ok s'.
Proof.
  intros Hok Hc. destruct (cstep_unpack _ _ _ _ _ _ _ _ _ Hc) as (th & o & Hg & HB & -> & ->).
  intros t th' Hg'. destruct (Nat.eq_dec t me) as [->|Hne].
  - rewrite (commit_me_full s me th o Hg) in Hg'. inversion Hg'; subst th'; clear Hg'.
    destruct (pc_eq_idle K V (tpc th)) as [Hidle|Hnidle].
    + destruct (blk_idle _ _ _ _ _ _ _ _ _ Hidle HB) as (o0 & rest & Hpr & Hpc & Hev).
      rewrite Hev. cbn [returned existsb orb]. right. exists o0, rest. cbn [prog tpc].
      split; [exact Hpr|]. rewrite Hpc. reflexivity.
    + destruct (Hok me th Hg) as [Hidle|(o0 & rest & Hpr & Hfor)]; [contradiction|].
      destruct (blk_outcome _ _ _ _ _ _ _ _ _ _ Hfor HB) as [Hq Hfor'|r Hr Hidle' _].
      * rewrite (quiet_returned K V _ Hq). right. exists o0, rest. cbn [prog tpc]. split; assumption.
      * rewrite (retev_returned K V _ _ Hr). left. cbn [tpc]. exact Hidle'.
  - rewrite (commit_other K V s me th o t Hne) in Hg'. exact (Hok t th' Hg').
Qed.

Theorem call_ok_exec order : forall sched (s : st), call_ok s -> call_ok (fst (exec ltb order s sched)).
Proof.
  induction sched as [|t sched IH]; intros s H; [exact H|]. cbn [exec].
  destruct (cstep ltb order s t) as [| | |s' acq ev|p] eqn:E; try exact H.
  specialize (IH s' (call_ok_step order s s' t acq ev H E)).
  destruct (exec ltb order s' sched) as [s'' h]. exact IH.
Qed.

Theorem call_ok_reachable order progs sched :
  call_ok (fst (exec ltb order (init_st progs) sched)).
Proof. apply call_ok_exec. apply call_ok_init. Qed.

(* ------------------------------------------------------------------------------------------------ *)
(* the blocks of an Update call                                                                      *)
(* ------------------------------------------------------------------------------------------------ *)

(* the callback block: runs only for an Update, applies f (see Conc.v), returns *)
Lemma blk_cb order (s : st) me th tg (r : out) o leaf mode index :
  tpc th = UpdCallback o leaf mode index -> blk ltb order s me th tg = Ok (Some r) ->
  exists k f a, o = CUpdate k f /\ opc r = Idle /\ oev r = [EReturn (RArg K a)].
Proof.
  intros Hp H. unfold blk in H. cbv zeta in H. rewrite Hp in H.
  blk_top H. unfold mk in HE.
  crunch HE; inversion HE; subst; cbn [opc oev]; do 3 eexists; repeat split; reflexivity.
Qed.

(* before the callback an Update is silent: holding a node, it goes on to a child or parks in the callback *)
Lemma ins_descend_upd k f n (t : itree) l fr tmx (out : out) :
  ins_descend ltb (CUpdate k f) n t l fr tmx = Ok out -> oev out = [].
Proof.
  intros H. unfold ins_descend, mk in H.
  crunch H; inversion H; subst; reflexivity.
Qed.

(* no block of an Update call other than the callback block emits an event (in particular none returns) *)
Lemma blk_upd_noret order (s : st) me th tg (r : out) k f :
  pc_for (tpc th) (CUpdate k f) -> is_cb (tpc th) = false ->
  blk ltb order s me th tg = Ok (Some r) -> oev r = [].
Proof.
  intros Hop Hcb H. unfold blk in H. cbv zeta in H.
  destruct (tpc th) as [ |o0|o0 r0|o0 lft rgt|o0 p c index|o0 p c r0|o0 leaf mode index|o0 p c|o0 stk|o0 stk|o0 stk|leaf i n acc|leaf nxt n acc];
    simpl in Hop; try discriminate Hcb.
  - destruct Hop.
  - subst o0. unfold mk in H. cbn [bind] in H. inversion H. reflexivity.
  - subst o0. blk_top H.
    destruct (isplit order (fresh s) (tr s)) as [[l1 r1]|].
    + crunch HE; try (eapply ins_descend_upd; eassumption).
      unfold mk in HE. inversion HE. reflexivity.
    + eapply ins_descend_upd; eassumption.
  - destruct Hop as [-> Hu]. blk_top H. eapply ins_descend_upd; eassumption.
  - destruct Hop as [-> Hu]. blk_top H. unfold mk in HE.
    crunch HE; try (eapply ins_descend_upd; eassumption).
    inversion HE; subst. reflexivity.
  - destruct Hop as [-> Hu]. blk_top H. eapply ins_descend_upd; eassumption.
  - destruct Hop as [_ Hu]. discriminate Hu.
  - destruct Hop as [_ Hu]. discriminate Hu.
  - destruct Hop as [_ Hu]. discriminate Hu.
  - destruct Hop as [_ Hu]. discriminate Hu.
  - discriminate Hop.
  - discriminate Hop.
Qed.

(* ------------------------------------------------------------------------------------------------ *)
(* classification of the steps of a thread                                                           *)
(* ------------------------------------------------------------------------------------------------ *)
(* (1) callback step: taken from [UpdCallback], the call in flight is an Update, the step returns it;
   (2) silent-or-pair step: the call (if any) goes on, the program is unchanged, the pc left is not the callback's;
   (3) return of a call that is not an Update, from a pc that is not the callback's. *)
Inductive step_kind (th th' : thread) (ev : list event) : Prop :=
| SK_cb k f leaf mode index a :
    tpc th = UpdCallback (CUpdate k f) leaf mode index -> prog th = CUpdate k f :: prog th' ->
    tpc th' = Idle -> ev = [EReturn (RArg K a)] -> results th' = RArg K a :: results th -> step_kind th th' ev
| SK_go :
    is_cb (tpc th) = false -> prog th' = prog th -> returned ev = false -> results th' = results th ->
    step_kind th th' ev
| SK_ret o :
    is_cb (tpc th) = false -> prog th = o :: prog th' -> is_upd o = false -> tpc th' = Idle ->
    returned ev = true -> step_kind th th' ev.

Theorem own_step_class order (s s' : st) me acq ev th :
  call_ok s -> get_thread me (ths s) = Some th -> cstep ltb order s me = Stepped s' acq ev ->
  exists th', get_thread me (ths s') = Some th' /\ step_kind th th' ev.
Proof.
  intros Hok Hg Hc. destruct (cstep_unpack _ _ _ _ _ _ _ _ _ Hc) as (th0 & o & Hg0 & HB & -> & ->).
  rewrite Hg in Hg0. inversion Hg0; subst th0; clear Hg0.
  rewrite (commit_me_full s me th o Hg). eexists. split; [reflexivity|].
  destruct (pc_eq_idle K V (tpc th)) as [Hidle|Hnidle].
  - (* invocation *)
    destruct (blk_idle _ _ _ _ _ _ _ _ _ Hidle HB) as (o0 & rest & Hpr & Hpc & Hev).
    rewrite Hev. cbn [returned existsb orb]. apply SK_go; cbn [prog tpc results]; try reflexivity.
    rewrite Hidle. reflexivity.
  - destruct (Hok me th Hg) as [Hidle|(o0 & rest & Hpr & Hfor)]; [contradiction|].
    destruct (is_cb (tpc th)) eqn:Ecb.
    + (* the callback step *)
      destruct (is_cb_true _ Ecb) as (o1 & leaf & mode & index & Hp).
      destruct (blk_cb _ _ _ _ _ _ _ _ _ _ Hp HB) as (k & f & a & Ho & Hpc & Hev).
      rewrite Hp in Hfor. simpl in Hfor. destruct Hfor as [Ho1 _]. subst o1 o0.
      rewrite Hev. cbn [returned existsb orb flat_map app].
      eapply SK_cb with (a := a); cbn [prog tpc results].
      * exact Hp.
      * rewrite Hpr. reflexivity.
      * exact Hpc.
      * reflexivity.
      * reflexivity.
    + destruct (blk_outcome _ _ _ _ _ _ _ _ _ _ Hfor HB) as [Hq Hfor'|r Hr Hidle' _].
      * rewrite (quiet_returned K V _ Hq).
        apply SK_go; cbn [prog tpc results]; [exact Ecb|reflexivity|apply quiet_returned; exact Hq|reflexivity].
      * rewrite (retev_returned K V _ _ Hr). apply SK_ret with (o := o0); cbn [prog tpc results].
        -- exact Ecb.
        -- rewrite Hpr. reflexivity.
        -- destruct o0 as [k v|k f|k|k|k cnt]; try reflexivity.
           pose proof (blk_upd_noret _ _ _ _ _ _ _ _ Hfor Ecb HB) as Hnil.
           rewrite Hnil in Hr. destruct Hr as [Hr|Hr]; discriminate Hr.
        -- exact Hidle'.
        -- apply retev_returned with (r := r). exact Hr.
Qed.

(* steps of other threads do not touch the thread's record *)
Lemma other_step_same order (s s' : st) me acq ev t :
  cstep ltb order s me = Stepped s' acq ev -> t <> me -> get_thread t (ths s') = get_thread t (ths s).
Proof.
  intros Hc Hne. destruct (cstep_unpack _ _ _ _ _ _ _ _ _ Hc) as (th & o & Hg & _ & -> & _).
  apply commit_other. exact Hne.
Qed.

End CB.

Arguments is_cb {K V} p.
Arguments is_upd {K V} o.
Arguments thread_ok {K V} th.
Arguments call_ok {K V} s.
Arguments step_kind {K V} th th' ev.

Print Assumptions own_step_class.
Print Assumptions call_ok_reachable.

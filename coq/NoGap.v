(* NoGap.v — definitions for the first-step theorem of C04 (after fix F6: an Insert only ever LOWERS a first
   separator).  Executable; validated by the harness on every replayed model step before being proved.

   nogap:    every internal node that is not on the leftmost path has its first separator equivalent to its own
             separator in its parent: no key range [lo(N), N.runts[0]) exists off the leftmost path, so a descent
             is never routed by clamping there.
   scan_lo:  a Search/Scan descent resting on node x (or a cursor that has not yielded anything yet resting on
             leaf x) has its key at or above x's lower bound, or x is on the leftmost path. *)
From Coq Require Import List Bool PeanoNat.
From GB Require Export Conc GI LockInv CInv.
Import ListNotations.
Set Implicit Arguments.

Section NoGap.
Variables (K V : Type) (ltb : K -> K -> bool).
Notation itree := (itree K V).
Notation st := (st K V).

Definition first_sep (t : itree) : option K :=
  match t with INode _ ((s, _) :: _) => Some s | _ => None end.

(* lm = "t is on the leftmost path" *)
Fixpoint nogap_b (lm : bool) (t : itree) : bool :=
  match t with
  | ILeaf _ _ _ => true
  | INode _ cs =>
    (fix go (first : bool) (cs : list (K * itree)) : bool :=
       match cs with
       | [] => true
       | (s, c) :: r =>
         (match first_sep c with Some s0 => (lm && first) || eqvb ltb s0 s | None => true end) &&
         nogap_b (lm && first) c && go false r
       end) true cs
  end.

Fixpoint leftmost_b (x : id) (t : itree) : bool :=
  (nid t =? x) || match t with INode _ ((_, c) :: _) => leftmost_b x c | _ => false end.

Definition in_lo (k : K) (x : id) (t : itree) : bool :=
  match bounds x t with Some (lo, _) => ge_lo ltb k lo | None => false end.

Definition lo_or_left (k : K) (x : id) (t : itree) : bool := in_lo k x t || leftmost_b x t.

Definition scan_lo_pc_b (t : itree) (pr : list (cop K V)) (p : pc K V) : bool :=
  match p with
  | SeaWantChild o pn _ => lo_or_left (key_of o) pn t
  | CurRest leaf _ _ [] | CurWantNext leaf _ _ [] =>
    match pr with CScan k _ :: _ => lo_or_left k leaf t | _ => false end
  | _ => true
  end.

Definition scan_lo_b (s : st) : bool :=
  forallb (fun e => scan_lo_pc_b (tr s) (prog (snd e)) (tpc (snd e))) (ths s).

Definition nogap_st_b (s : st) : bool := nogap_b true (tr s).
End NoGap.

(* TB_HW_Sanity.v — the abstract definition [linearizable] of TB_HW.v has teeth: a stale read after a completed
   Insert is rejected, the same events with overlapping calls are accepted (keys and values: nat). *)
From Coq Require Import List Bool PeanoNat Lia.
From GB Require Import Model Spec LinDef TB_Trace TB_Link TB_HW.
Import ListNotations.

Definition h_bad : list (hev nat nat) :=
  [HInv 1 (CInsert 5 7); HRes 1 RUnit; HInv 2 (CSearch 5); HRes 2 (RFound nat None)].

Definition h_good : list (hev nat nat) :=
  [HInv 2 (CSearch 5); HInv 1 (CInsert 5 7); HRes 1 RUnit; HRes 2 (RFound nat None)].

Lemma m01 : matching h_bad 0 1 1 (CInsert 5 7) RUnit.
Proof.
  split; [lia|]. split; [reflexivity|]. split; [reflexivity|]. intros j e Hj. lia.
Qed.
Lemma m23 : matching h_bad 2 3 2 (CSearch 5) (RFound nat None).
Proof.
  split; [lia|]. split; [reflexivity|]. split; [reflexivity|]. intros j e Hj. lia.
Qed.

Theorem stale_read_not_linearizable : ~ linearizable Nat.ltb h_bad.
Proof.
  intros (S & [Hnd Hops] & Hc & Hleg & Hrt).
  destruct (Hc 0 1 1 _ _ m01 eq_refl) as (e1 & I1 & A1 & R1).
  destruct (Hc 2 3 2 _ _ m23 eq_refl) as (e2 & I2 & A2 & R2).
  (* invocation positions in S are 0 or 2 *)
  assert (Hpos : forall e, In e S -> (s_inv e = 0 /\ s_op e = OInsert 5 7) \/ (s_inv e = 2 /\ s_op e = OSearch 5)).
  { intros e He. destruct (Hops e He) as (t & o & Hn & Hs).
    destruct (s_inv e) as [|[|[|[|n]]]]; simpl in Hn; try discriminate Hn; inversion Hn; subst; simpl in Hs;
      inversion Hs; auto. destruct n; discriminate. }
  assert (Huniq : forall e e', In e S -> In e' S -> s_inv e = s_inv e' -> e = e').
  { clear - Hnd. induction S as [|a S IH]; intros e e' He He' E; [destruct He|].
    simpl in Hnd. inversion Hnd as [|? ? Hni Hnd']; subst.
    destruct He as [->|He], He' as [->|He']; try reflexivity.
    - exfalso. apply Hni. rewrite E. apply in_map. exact He'.
    - exfalso. apply Hni. rewrite <- E. apply in_map. exact He.
    - apply IH; assumption. }
  (* e2 is not before e1 *)
  assert (Hord : forall S1 S2, S = S1 ++ e2 :: S2 -> ~ In e1 S2).
  { intros S1 S2 ES Hin. apply (Hrt S1 e2 S2 e1 ES Hin). rewrite A1, A2.
    exists 1, 1, (CInsert 5 7), RUnit. split; [exact m01|lia]. }
  assert (Hne : e1 <> e2) by (intros E; rewrite E in A1; lia).
  (* so S = ... e1 ... e2 ..., and every element is e1 or e2 *)
  assert (Hall : forall e, In e S -> e = e1 \/ e = e2).
  { intros e He. destruct (Hpos e He) as [[P _]|[P _]]; [left|right]; apply Huniq; try assumption; lia. }
  destruct (in_split e2 S I2) as (S1 & S2 & ES).
  assert (HS2 : S2 = []).
  { destruct S2 as [|z S2]; [reflexivity|]. exfalso.
    assert (Hz : In z S) by (rewrite ES; apply in_or_app; right; right; left; reflexivity).
    destruct (Hall z Hz) as [->| ->].
    - apply (Hord S1 (e1 :: S2) ES). left. reflexivity.
    - rewrite ES, map_app in Hnd. apply NoDup_remove_2 in Hnd. apply Hnd. apply in_or_app. right. left. reflexivity. }
  subst S2.
  assert (HS1 : S1 = [e1]).
  { assert (Hin1 : In e1 S1).
    { rewrite ES in I1. apply in_app_or in I1. destruct I1 as [H|[H|[]]]; [exact H|congruence]. }
    destruct S1 as [|z S1]; [destruct Hin1|].
    assert (Hz : z = e1).
    { assert (Hz : In z S) by (rewrite ES; left; reflexivity).
      destruct (Hall z Hz) as [->| ->]; [reflexivity|]. exfalso.
      rewrite ES in Hnd. simpl in Hnd. inversion Hnd as [|? ? Hni _]; subst. apply Hni.
      rewrite map_app. apply in_or_app. right. left. reflexivity. }
    subst z. f_equal. destruct S1 as [|z S1]; [reflexivity|]. exfalso.
    assert (Hz : In z S) by (rewrite ES; right; left; reflexivity).
    rewrite ES in Hnd. simpl in Hnd. inversion Hnd as [|? ? Hni Hnd']; subst.
    destruct (Hall z Hz) as [->| ->].
    - apply Hni. left. reflexivity.
    - simpl in Hnd'. inversion Hnd' as [|? ? Hni' _]; subst. apply Hni'. rewrite map_app. apply in_or_app. right. left. reflexivity. }
  subst S1. rewrite ES in Hleg. unfold seq_legal in Hleg. simpl in Hleg.
  destruct (Hpos e1 I1) as [[_ O1]|[P _]]; [|lia]. destruct (Hpos e2 I2) as [[P _]|[_ O2]]; [lia|].
  rewrite O1, O2 in Hleg. simpl in Hleg. inversion Hleg as [[X1 X2]].
  rewrite <- X2 in R2. simpl in R2. discriminate R2.
Qed.

Theorem overlapping_read_linearizable : linearizable Nat.ltb h_good.
Proof.
  exists [(0, OSearch 5, ObsFound None); (1, OInsert 5 7, ObsUnit)].
  split; [|split; [|split]].
  - split.
    + simpl. constructor; [intros [H|[]]; discriminate H|]. constructor; [intros []|constructor].
    + intros e [<-|[<-|[]]]; simpl; eauto.
  - intros a n t o r (Hlt & Ha & Hn & Hq) Hsc.
    destruct a as [|[|[|[|a]]]]; simpl in Ha; try discriminate Ha; inversion Ha; subst.
    + destruct n as [|[|[|[|n]]]]; simpl in Hn; try discriminate Hn; inversion Hn; subst.
      * eexists. split; [left; reflexivity|]. split; reflexivity.
      * destruct n; discriminate.
    + destruct n as [|[|[|[|n]]]]; simpl in Hn; try discriminate Hn; inversion Hn; subst.
      * eexists. split; [right; left; reflexivity|]. split; reflexivity.
      * destruct n; discriminate.
    + destruct a; discriminate.
  - reflexivity.
  - intros S1 e2 S2 e1 ES Hin (n1 & t & o & r & (Hlt & Ha & Hn & Hq) & Hb).
    destruct S1 as [|x [|y S1]]; simpl in ES; inversion ES; subst.
    + (* e2 = Search (inv 0), e1 = Insert (inv 1): Insert's response (2) is not before 0 *)
      destruct Hin as [<-|[]]. unfold s_inv in *. simpl in *. lia.
    + destruct Hin.
    + destruct S1; discriminate.
Qed.

Print Assumptions stale_read_not_linearizable.
Print Assumptions overlapping_read_linearizable.

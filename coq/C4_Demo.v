(* C4_Demo.v — a concrete run (vm_compute) showing that the hypotheses of the C04 theorems are inhabited: a cursor
   interleaved with inserts and a delete at order 4 emits pairs, hops to the next leaf and reports the end of the scan. *)
From Coq Require Import List PeanoNat.
From GB Require Import Model Conc Lin.
Import ListNotations.

Definition ins (k : nat) : cop nat nat := CInsert k (10 * k).
Definition progs : list (tid * list (cop nat nat)) :=
  [ (1, [ins 10; ins 20; ins 30; ins 40; ins 50; ins 60; ins 70]);
    (2, [CScan 15 10]);
    (3, [ins 45; ins 5; CDelete 60; ins 80]) ].

(* follow the preferred thread of each slot; if it cannot step, take the first thread that can *)
Fixpoint go (s : st nat nat) (pref : list tid) : st nat nat * list (tid * list (event nat nat)) :=
  match pref with
  | [] => (s, [])
  | t :: r =>
    let try := fix try (l : list tid) :=
      match l with
      | [] => None
      | u :: l' => match cstep Nat.ltb 4 s u with Stepped s' _ ev => Some (u, s', ev) | _ => try l' end
      end in
    match try (t :: [1; 2; 3]) with
    | Some (u, s', ev) => let '(s'', h) := go s' r in (s'', (u, ev) :: h)
    | None => (s, [])
    end
  end.

Fixpoint rep {A} (n : nat) (l : list A) : list A := match n with 0 => [] | S m => l ++ rep m l end.

(* thread 1 inserts its first five keys, then the cursor and the two writers alternate *)
Definition pref : list tid := rep 22 [1] ++ rep 40 [2; 3; 1].

Definition run := go (init_st progs) pref.
Definition sched : list tid := map fst (snd run).
(* the schedule found is a real schedule of the model *)
Eval vm_compute in (length sched, length (snd (exec Nat.ltb 4 (init_st progs) sched))).
Definition scan_events := filter (fun p => fst p =? 2) (snd run).
Eval vm_compute in (flat_map snd scan_events).
Eval vm_compute in (abs Nat.ltb (fst run)).
Eval vm_compute in (tr (fst run)).

(* TG_Final.v — C06, global form, part 3: THERE IS NO INFINITE EXECUTION, and the summary of the TG_ development.
   [exec] is prefix-monotone (the history of a longer schedule extends the history of each of its prefixes), and once a
   scheduled step is impossible the execution stays where it is.  With the bound of TG_Finite: along ANY infinite
   sequence of thread ids the executions of its prefixes stop growing, at the latest after [S (bound progs)] entries. *)
From Coq Require Import List Bool Lia PeanoNat.
From GB Require Import Model Inv Conc SoloBase LinDef Lin Final CB_Count TERM_Proof TG_Finite TG_Stuck.
Import ListNotations.

Section NoInfinite.
Variables (K V : Type) (ltb : K -> K -> bool).
Notation st := (st K V).
Notation cop := (cop K V).
Notation event := (event K V).
Variable order : nat.

(* ------------------------------------------------------------------------------------------------ *)
(* exec and concatenation of schedules                                                                *)
(* ------------------------------------------------------------------------------------------------ *)
(* prefix-monotone: the history of a ++ b extends the history of a *)
Lemma exec_prefix_mono : forall a b (s : st),
  exists h', snd (exec ltb order s (a ++ b)) = snd (exec ltb order s a) ++ h'.
Proof.
  induction a as [|u a IH]; intros b s.
  - exists (snd (exec ltb order s b)). reflexivity.
  - rewrite <- app_comm_cons, !exec_cons.
    destruct (cstep ltb order s u) as [ | | |s1 acq ev|p] eqn:Hc; try (exists []; reflexivity).
    cbn [snd]. destruct (IH b s1) as [h' E]. exists h'. rewrite E. reflexivity.
Qed.

(* the history is never longer than the schedule *)
Lemma exec_length_le : forall a (s : st), length (snd (exec ltb order s a)) <= length a.
Proof.
  induction a as [|u a IH]; intros s; [cbn; lia|].
  rewrite exec_cons. destruct (cstep ltb order s u) as [ | | |s1 acq ev|p] eqn:Hc; try (cbn; lia).
  cbn [snd length]. specialize (IH s1). lia.
Qed.

(* a schedule all of whose steps were possible: the execution goes on with the rest *)
Lemma exec_app_full : forall a b (s : st),
  length (snd (exec ltb order s a)) = length a ->
  exec ltb order s (a ++ b) =
  (fst (exec ltb order (fst (exec ltb order s a)) b),
   snd (exec ltb order s a) ++ snd (exec ltb order (fst (exec ltb order s a)) b)).
Proof.
  induction a as [|u a IH]; intros b s Hl.
  - cbn [app exec fst snd]. destruct (exec ltb order s b). reflexivity.
  - rewrite <- app_comm_cons, !exec_cons. rewrite exec_cons in Hl.
    destruct (cstep ltb order s u) as [ | | |s1 acq ev|p] eqn:Hc; try (cbn in Hl; discriminate Hl).
    cbn [fst snd length] in *. rewrite (IH b s1); [reflexivity|lia].
Qed.

(* a schedule one of whose steps was impossible: nothing scheduled afterwards matters *)
Lemma exec_stuck_app : forall a b (s : st),
  length (snd (exec ltb order s a)) < length a -> exec ltb order s (a ++ b) = exec ltb order s a.
Proof.
  induction a as [|u a IH]; intros b s Hl; [cbn in Hl; lia|].
  rewrite <- app_comm_cons, !exec_cons. rewrite exec_cons in Hl.
  destruct (cstep ltb order s u) as [ | | |s1 acq ev|p] eqn:Hc; try reflexivity.
  cbn [snd length] in Hl. rewrite (IH b s1); [reflexivity|lia].
Qed.

(* the first m entries of an infinite schedule *)
Definition prefix (f : nat -> tid) (m : nat) : list tid := map f (seq 0 m).

Lemma prefix_length f m : length (prefix f m) = m.
Proof. unfold prefix. rewrite map_length, seq_length. reflexivity. Qed.

Lemma prefix_app f n k : prefix f (n + k) = prefix f n ++ map f (seq n k).
Proof. unfold prefix. rewrite seq_app, map_app. reflexivity. Qed.

(* the histories along the prefixes of an infinite schedule form a chain *)
Lemma prefix_hist_mono f (s : st) n m : n <= m ->
  exists h', snd (exec ltb order s (prefix f m)) = snd (exec ltb order s (prefix f n)) ++ h'.
Proof.
  intros Hle. replace m with (n + (m - n)) by lia. rewrite prefix_app. apply exec_prefix_mono.
Qed.

(* a bounded execution stops growing *)
Lemma bounded_stops (f : nat -> tid) (s : st) N :
  (forall sched, length (snd (exec ltb order s sched)) <= N) ->
  forall m, S N <= m -> exec ltb order s (prefix f m) = exec ltb order s (prefix f (S N)).
Proof.
  intros Hb m Hle. replace m with (S N + (m - S N)) by lia. rewrite prefix_app.
  apply exec_stuck_app. rewrite prefix_length. specialize (Hb (prefix f (S N))). lia.
Qed.

(* ------------------------------------------------------------------------------------------------ *)
(* the theorems                                                                                       *)
(* ------------------------------------------------------------------------------------------------ *)
Hypothesis HS : SWO ltb.
Hypothesis Heven : Nat.even order = true.
Hypothesis H4 : 4 <= order.
Variable progs : list (tid * list cop).
Hypothesis Hnd : NoDup (map fst progs).

(* (G3), explicit: after S (bound progs) entries nothing happens any more (state and history) *)
Theorem execution_stops_at_bound : forall (f : nat -> tid) m,
  S (bound K V progs) <= m ->
  exec ltb order (init_st progs) (prefix f m) = exec ltb order (init_st progs) (prefix f (S (bound K V progs))).
Proof.
  intros f m Hle. apply bounded_stops; [|exact Hle].
  exact (execution_length_le_bound K V ltb order HS Heven H4 progs Hnd).
Qed.

(* (G3) *)
Theorem no_infinite_execution : forall (f : nat -> tid),
  exists n, forall m, n <= m ->
    snd (exec ltb order (init_st progs) (prefix f m)) = snd (exec ltb order (init_st progs) (prefix f n)).
Proof.
  intros f. exists (S (bound K V progs)). intros m Hle. rewrite (execution_stops_at_bound f m Hle). reflexivity.
Qed.

(* an execution (a schedule all of whose steps were possible) that no thread can extend has returned every call *)
Theorem unextendable_means_done : forall sched,
  length (snd (exec ltb order (init_st progs) sched)) = length sched ->
  (forall t, length (snd (exec ltb order (init_st progs) (sched ++ [t]))) = length sched) ->
  done K V (fst (exec ltb order (init_st progs) sched)) /\
  forall p, In p progs -> ret_steps K V (fst p) (snd (exec ltb order (init_st progs) sched)) = length (snd p).
Proof.
  intros sched Hfull Hext.
  assert (Hstuck : stuck K V ltb order (fst (exec ltb order (init_st progs) sched))).
  { intros t s' acq ev Hc. specialize (Hext t). rewrite (exec_app_full sched [t] _ Hfull) in Hext.
    cbn [snd] in Hext. rewrite exec_cons, Hc in Hext. cbn [snd] in Hext. rewrite app_length in Hext.
    cbn [length] in Hext. lia. }
  split.
  - exact (stuck_means_done K V ltb order HS Heven H4 progs Hnd sched Hstuck).
  - exact (stuck_all_returned K V ltb order HS Heven H4 progs Hnd sched Hstuck).
Qed.

End NoInfinite.

(* ------------------------------------------------------------------------------------------------ *)
(* the three statements, closed                                                                       *)
(* ------------------------------------------------------------------------------------------------ *)
Check every_execution_is_finite.
Check execution_length_le_bound.
Check stuck_means_done.
Check no_infinite_execution.
Print Assumptions every_execution_is_finite.
Print Assumptions stuck_means_done.
Print Assumptions no_infinite_execution.
Print Assumptions execution_length_le_bound.
Print Assumptions execution_stops_at_bound.
Print Assumptions unextendable_means_done.
Print Assumptions stuck_all_returned.

(* ------------------------------------------------------------------------------------------------ *)
(* SUMMARY (C06, global form).  Premises everywhere: SWO ltb, Nat.even order = true, 4 <= order,       *)
(* NoDup (map fst progs).                                                                             *)
(*                                                                                                    *)
(* NOTE on [exec]: it STOPS at the first scheduled step that is not possible (the scheduled thread is  *)
(* Blocked, Finished, absent, or would crash) and returns the state reached so far; [snd (exec ...)]   *)
(* has exactly one entry (t, events) per step actually taken.  So 'length (snd (exec ...))' is the     *)
(* number of steps taken, and blocked attempts are not recorded (they end the run).  The statements    *)
(* below are therefore true as asked; the only adaptation is the form of (G2) ('not of the form        *)
(* Stepped' is written [forall t s' acq ev, cstep .. s t <> Stepped s' acq ev]; 'every thread' is       *)
(* [forall t th, get_thread t (ths s) = Some th -> ..], also given as a Forall over the thread table).  *)
(*                                                                                                    *)
(* TG_Finite.v                                                                                        *)
(*   slen o := n for CScan _ n, 0 otherwise;  budget P o := 3 * P + 2 * slen o + 6;                    *)
(*   Wt P l := list_sum (map (budget P) l);                                                            *)
(*   P0 progs := Phi (init_st progs)  ( = list_sum (map (fun p => count_ups (snd p)) progs), the number *)
(*     of Insert/Update calls in all programs: P0_explicit );                                          *)
(*   bound progs := list_sum (map (fun p => Wt (P0 progs) (snd p)) progs).                             *)
(*   pot P s t := measure s t + Wt P (rem s t), rem s t = the calls of t after the call in flight.      *)
(*   own_step_pot   : BigInv s -> Phi s <= P -> cstep s me = Stepped s' _ _ -> pot P s' me + 1 <= pot P s me *)
(*   other_step_pot : BigInv s -> cstep s me = Stepped s' _ _ -> t <> me -> pot P s' t <= pot P s t    *)
(*   steps_le_pot   : steps_of t (snd (exec s sched)) + pot P (fst (exec s sched)) t <= pot P s t      *)
(*   thread_steps_le_budget : In p progs -> steps_of (fst p) (history) <= Wt P0 (snd p)                *)
(*   (G1) execution_length_le_bound : forall sched, length (snd (exec (init_st progs) sched)) <= bound progs *)
(*        every_execution_is_finite : exists N, forall sched, length (snd (exec ..)) <= N              *)
(* TG_Stuck.v                                                                                         *)
(*   (G2) stuck_means_done : let s := fst (exec (init_st progs) sched) in                              *)
(*          (forall t s' acq ev, cstep s t <> Stepped s' acq ev) ->                                    *)
(*          forall t th, get_thread t (ths s) = Some th -> tpc th = Idle /\ prog th = []               *)
(*        stuck_means_done_all (Forall form), stuck_iff_done, not_done_can_step,                       *)
(*        stuck_all_returned : stuck s -> In p progs -> ret_steps (fst p) history = length (snd p)     *)
(* TG_Final.v                                                                                         *)
(*   exec_prefix_mono, exec_app_full, exec_stuck_app, prefix f m := map f (seq 0 m)                    *)
(*   (G3) no_infinite_execution : forall f, exists n, forall m, n <= m ->                              *)
(*          snd (exec (init_st progs) (prefix f m)) = snd (exec (init_st progs) (prefix f n))          *)
(*        execution_stops_at_bound : the same with n = S (bound progs), for state and history          *)
(*        unextendable_means_done : a fully executed schedule that no thread can extend is done and    *)
(*          has returned every call.                                                                   *)
(* Nothing remains open.                                                                               *)
(* ------------------------------------------------------------------------------------------------ *)

(* LINa_Abs.v — the abstraction function of Lin.v split into the stepping thread's own placeholder and the other
   threads' placeholders; the other threads' placeholder keys live in leaves they hold, hence (by exclusivity of
   locks) not in the leaf the stepping thread works on; normal form of lp_step after a step. *)
From Coq Require Import List Bool Lia PeanoNat Permutation Sorted.
From GB Require Import Model Spec Inv ListLemmas SearchProof TreeLemmas Conc GI LockInv LockProof CInv CIDef CInv3
  EraseLemmas EraseOps SoloBase SoloSearch Lin GIa1_Ctx LINa_Lists LINa_Ctx.
Import ListNotations.

Section A.
Variables (K V : Type) (ltb : K -> K -> bool).
Hypothesis HS : SWO ltb.
Notation itree := (itree K V).
Notation st := (st K V).
Notation out := (out K V).
Notation pc := (pc K V).
Notation cop := (cop K V).
Notation thread := (thread K V).
Notation SS := (StronglySorted (fun a b => ltb a b = true)).

Definition ents (t : itree) : list (K * V) := entries (erase_ids t).

Definition ph (p : pc) : list K := match p with UpdCallback o _ (S (S _)) _ => [key_of o] | _ => [] end.

Lemma PK_eq (s : st) : placeholder_keys s = flat_map (fun e => ph (tpc (snd e))) (ths s).
Proof. reflexivity. Qed.

Lemma abs_eq (s : st) : abs ltb s = absP ltb (placeholder_keys s) (ents (tr s)).
Proof. reflexivity. Qed.

(* ---- thread lists ---- *)
Lemma get_thread_split me (l : list (tid * thread)) th :
  get_thread me l = Some th ->
  exists L1 L2, l = L1 ++ (me, th) :: L2 /\ ~ In me (map fst L1).
Proof.
  unfold get_thread. induction l as [|[u thu] l IH]; simpl; [discriminate|].
  destruct (u =? me) eqn:E.
  - intros H. inversion H; subst. apply Nat.eqb_eq in E. subst u. exists [], l. split; [reflexivity|simpl; tauto].
  - intros H. destruct (IH H) as (L1 & L2 & -> & Hn). exists ((u, thu) :: L1), L2. split; [reflexivity|].
    simpl. apply Nat.eqb_neq in E. intros [X|X]; [congruence|tauto].
Qed.

Lemma set_thread_id me (th' : thread) l : ~ In me (map fst l) -> set_thread me th' l = l.
Proof.
  unfold set_thread. induction l as [|[u thu] l IH]; simpl; intros H; [reflexivity|].
  destruct (u =? me) eqn:E; [apply Nat.eqb_eq in E; subst; tauto|]. f_equal. apply IH. tauto.
Qed.

Lemma set_thread_split me (th th' : thread) L1 L2 :
  ~ In me (map fst L1) -> ~ In me (map fst L2) ->
  set_thread me th' (L1 ++ (me, th) :: L2) = L1 ++ (me, th') :: L2.
Proof.
  intros H1 H2.
  assert (Happ : forall A B, set_thread me th' (A ++ B) = set_thread me th' A ++ set_thread me th' B)
    by (intros; apply map_app).
  assert (Hcons : set_thread me th' ((me, th) :: L2) = (me, th') :: set_thread me th' L2).
  { unfold set_thread. cbn [map fst]. rewrite Nat.eqb_refl. reflexivity. }
  rewrite Happ, Hcons, !set_thread_id by assumption. reflexivity.
Qed.

Lemma get_thread_nodup t (th : thread) l : NoDup (map fst l) -> In (t, th) l -> get_thread t l = Some th.
Proof.
  unfold get_thread. induction l as [|[u thu] l IH]; simpl; intros Hnd Hin; [tauto|].
  inversion Hnd as [|? ? Hn Hnd']; subst. destruct Hin as [Hin|Hin].
  - inversion Hin; subst. rewrite Nat.eqb_refl. reflexivity.
  - destruct (u =? t) eqn:E; [|auto]. apply Nat.eqb_eq in E. subst u. exfalso. apply Hn.
    apply in_map_iff. exists (t, th). auto.
Qed.

(* ---- the abstraction, own placeholder apart ---- *)
Lemma abs_decomp (s : st) me th :
  NoDup (map fst (ths s)) -> get_thread me (ths s) = Some th ->
  exists PO,
    abs ltb s = absP ltb PO (absP ltb (ph (tpc th)) (ents (tr s))) /\
    (forall (s' : st) th', ths s' = set_thread me th' (ths s) ->
       abs ltb s' = absP ltb PO (absP ltb (ph (tpc th')) (ents (tr s')))) /\
    (forall k', In k' PO -> exists t tht, t <> me /\ get_thread t (ths s) = Some tht /\ In k' (ph (tpc tht))).
Proof.
  intros Hnd Hg. destruct (get_thread_split me _ th Hg) as (L1 & L2 & El & Hn1).
  assert (Hn2 : ~ In me (map fst L2)).
  { rewrite El, map_app in Hnd. cbn [map fst] in Hnd. apply NoDup_remove_2 in Hnd.
    intros X. apply Hnd. apply in_or_app. now right. }
  set (F := fun e : tid * thread => ph (tpc (snd e))).
  exists (flat_map F L1 ++ flat_map F L2). split; [|split].
  - rewrite abs_eq, PK_eq, El, flat_map_app. cbn [flat_map snd]. apply absP_mid.
  - intros s' th' Hs'. rewrite abs_eq, PK_eq, Hs', El, (set_thread_split me th th' L1 L2 Hn1 Hn2), flat_map_app.
    cbn [flat_map snd]. apply absP_mid.
  - intros k' Hk. rewrite <- flat_map_app in Hk. apply in_flat_map in Hk. destruct Hk as ([t tht] & Hin & Hk).
    exists t, tht. split; [|split; [|exact Hk]].
    + intros ->. apply in_app_or in Hin. destruct Hin as [Hin|Hin]; [apply Hn1|apply Hn2];
        apply in_map_iff; exists (me, tht); auto.
    + apply get_thread_nodup; [exact Hnd|]. rewrite El. apply in_app_or in Hin. apply in_or_app.
      destruct Hin as [Hin|Hin]; [now left|right; now right].
Qed.

(* ---- other threads' placeholder keys are away from the leaf I work on ---- *)
Lemma others_fresh order (s : st) me x k PO :
  lock_inv s -> all_pc_ok_b ltb order s = true ->
  (forall k', In k' PO -> exists t tht, t <> me /\ get_thread t (ths s) = Some tht /\ In k' (ph (tpc tht))) ->
  (holder x (lk s) = None \/ In (x, me) (lk s)) ->
  FAR ltb x k (tr s) -> fresh_for ltb k PO.
Proof.
  intros Hli Hpcs HPO Hx Hfar. apply Forall_forall. intros k' Hk'.
  destruct (HPO k' Hk') as (t & tht & Hne & Hg & Hin).
  destruct Hli as (Hndl & _ & _ & _ & Hth). destruct (Hth t tht Hg) as (_ & Hperm & _).
  assert (Hpc : pc_ok_b ltb order (tr s) (tpc tht) = true).
  { unfold all_pc_ok_b in Hpcs. rewrite forallb_forall in Hpcs.
    unfold get_thread in Hg. destruct (List.find (fun e => fst e =? t) (ths s)) as [e|] eqn:Ef; [|discriminate].
    inversion Hg; subst. apply find_some in Ef. apply Hpcs. tauto. }
  destruct (tpc tht) as [ |o|o r0|o lft rgt|o p c index|o p c r0|o y mode index|o p c|o stk|o stk|o stk|leaf i n acc|leaf nxt n acc];
    try (simpl in Hin; tauto).
  destruct mode as [|[|m]]; try (simpl in Hin; tauto). simpl in Hin. destruct Hin as [<-|[]].
  cbn [pc_ok_b] in Hpc. destruct (Conc.find y (tr s)) as [[i nx es|]|] eqn:Hf; try discriminate Hpc.
  apply andb_true_iff in Hpc. destruct Hpc as [_ Hpc]. apply andb_true_iff in Hpc. destruct Hpc as [_ Hpc].
  destruct (nth_error es index) as [[k'' w]|] eqn:En; [|discriminate Hpc].
  assert (Hy : In (y, t) (lk s)).
  { apply In_held_by. eapply Permutation_in; [apply Permutation_sym; exact Hperm|]. simpl. now left. }
  assert (Hyx : y <> x).
  { intros ->. destruct Hx as [Hx|Hx].
    - apply holder_none in Hx. apply Hx. apply in_map_iff. exists (x, t). auto.
    - apply Hne. eapply NoDup_ids_functional; eauto. }
  destruct (find_leaf_in_leaves K V y _ _ _ _ Hf) as [Hl ->].
  specialize (Hfar _ Hl Hyx). cbn [snd] in Hfar. rewrite Forall_forall in Hfar.
  apply nth_error_In in En. specialize (Hfar _ En).
  eapply (eqvb_far K ltb HS); [exact Hpc|]. exact Hfar.
Qed.

(* ---- lp_step after a step ---- *)
Definition lp_of (p : pc) (pr : list cop) (acq : option (option id)) (ev : list (event K V)) (t : itree)
    (p' : pc) (t' : itree) : option (op K V) :=
  match p, pr with
  | Idle, _ | WantT _, _ => None
  | p, o :: _ =>
    match o with
    | CInsert k v => match returns ev with Some _ => Some (OInsert k v) | None => None end
    | CUpdate k f => match returns ev with Some _ => Some (OUpdate k f) | None => None end
    | CDelete k =>
      match p, acq with
      | WantRoot _ _, _ => if is_leaf_at (nid t) t then Some (ODelete k) else None
      | DelWantChild _ _, Some (Some c) => if is_leaf_at c t then Some (ODelete k) else None
      | _, _ => None
      end
    | CSearch k =>
      let decided := match p with SeaWantChild _ pn _ => below_lo ltb k pn t | _ => false end in
      if decided then None else
      match returns ev with
      | Some _ => Some (OSearch k)
      | None => match p' with
                | SeaWantChild _ pn' _ => if below_lo ltb k pn' t' then Some (OSearch k) else None
                | _ => None end
      end
    | CScan _ _ => None
    end
  | _, [] => None
  end.

Lemma lp_step_commit (s : st) me th tg (o : out) :
  get_thread me (ths s) = Some th ->
  lp_step ltb s me tg (oev o) (commit s me th o) = lp_of (tpc th) (prog th) tg (oev o) (tr s) (opc o) (otr o).
Proof.
  intros Hg. unfold lp_step, commit. cbn [ths tr]. rewrite Hg.
  erewrite get_set_same by exact Hg. unfold lp_of.
  destruct (returned (oev o)); cbn [tpc]; destruct (tpc th); destruct (prog th) as [|[] ?]; reflexivity.
Qed.

Lemma commit_ths (s : st) me th (o : out) :
  exists th', ths (commit s me th o) = set_thread me th' (ths s) /\ tpc th' = opc o.
Proof. unfold commit. cbn [ths]. destruct (returned (oev o)); eexists; split; reflexivity. Qed.

End A.

Arguments ents {K V} t.
Arguments ph {K V} p.
Arguments lp_of {K V} ltb p pr acq ev t p' t'.

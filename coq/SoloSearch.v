(* SoloSearch.v — a Search, and a NewScanner + n Scan steps (+ Close), run alone. *)
From Coq Require Import List Bool Lia PeanoNat Permutation.
From GB Require Import Model Inv ListLemmas TreeLemmas Conc GI LockInv LockProof EraseLemmas EraseOps SoloBase.
Import ListNotations.

Section Leaves.
Variables (K V : Type).
Notation itree := (itree K V).
Notation leafrec := (id * option id * list (K * V))%type.

Fixpoint leaves (t : itree) : list leafrec :=
  match t with
  | ILeaf i nx es => [(i, nx, es)]
  | INode _ cs => flat_map (fun c => leaves (snd c)) cs
  end.
Definition leaves_list (cs : list (K * itree)) : list leafrec := flat_map (fun c => leaves (snd c)) cs.
Definition lid (l : leafrec) : id := fst (fst l).
Definition llink (l : leafrec) : id * option id := (fst (fst l), snd (fst l)).

Lemma leaves_node i cs : leaves (INode i cs) = leaves_list cs.
Proof. reflexivity. Qed.
Lemma leaves_list_app a b : leaves_list (a ++ b) = leaves_list a ++ leaves_list b.
Proof. apply flat_map_app. Qed.
Lemma leaves_list_cons s c r : leaves_list ((s, c) :: r) = leaves c ++ leaves_list r.
Proof. reflexivity. Qed.

Lemma leaves_links : forall t : itree, leaf_links t = map llink (leaves t).
Proof.
  induction t as [i nx es|i cs IH] using itree_ind'; [reflexivity|].
  rewrite links_node, leaves_node. induction cs as [|[s c] r IHr]; [reflexivity|].
  inversion IH as [|? ? Hc Hr]; subst. rewrite links_list_cons, leaves_list_cons, map_app.
  simpl in Hc. rewrite Hc. f_equal. apply IHr. exact Hr.
Qed.

Lemma leaves_entries : forall t : itree, entries (erase_ids t) = flat_map snd (leaves t).
Proof.
  induction t as [i nx es|i cs IH] using itree_ind'; [simpl; rewrite app_nil_r; reflexivity|].
  rewrite erase_node, leaves_node. cbn [entries]. induction cs as [|[s c] r IHr]; [reflexivity|].
  inversion IH as [|? ? Hc Hr]; subst. rewrite erase_cs_cons, leaves_list_cons, flat_map_app.
  cbn [flat_map snd]. simpl in Hc. rewrite Hc. f_equal. apply IHr. exact Hr.
Qed.

Lemma leaves_list_entries (cs : list (K * itree)) :
  flat_map (fun c => entries (snd c)) (erase_cs cs) = flat_map snd (leaves_list cs).
Proof. exact (leaves_entries (INode 0 cs)). Qed.

Lemma leaves_ids : forall (t : itree) l, In l (leaves t) -> In (lid l) (ids t).
Proof.
  induction t as [i nx es|i cs IH] using itree_ind'; intros l Hin.
  - simpl in Hin. destruct Hin as [<-|[]]. simpl. now left.
  - rewrite leaves_node in Hin. rewrite ids_node. right.
    induction cs as [|[s c] r IHr]; [simpl in Hin; tauto|].
    inversion IH as [|? ? Hc Hr]; subst. rewrite leaves_list_cons in Hin. rewrite ids_list_cons.
    apply in_or_app. apply in_app_or in Hin. destruct Hin as [Hin|Hin]; [left; apply Hc; exact Hin|right; auto].
Qed.

Lemma leaves_list_ids (cs : list (K * itree)) l : In l (leaves_list cs) -> In (lid l) (ids_list cs).
Proof.
  induction cs as [|[s c] r IH]; intros H; [simpl in H; tauto|].
  rewrite leaves_list_cons in H. rewrite ids_list_cons. apply in_or_app. apply in_app_or in H.
  destruct H as [H|H]; [left; apply leaves_ids; exact H|right; auto].
Qed.

Lemma leaves_find : forall (t : itree) i nx es,
  NoDup (ids t) -> In (i, nx, es) (leaves t) -> Conc.find i t = Some (ILeaf i nx es).
Proof.
  induction t as [j nj ej|j cs IH] using itree_ind'; intros i nx es Hnd Hin.
  - simpl in Hin. destruct Hin as [E|[]]. inversion E; subst. exact (find_self _ _ (ILeaf i nx es)).
  - rewrite leaves_node in Hin. rewrite find_node. rewrite ids_node in Hnd. inversion Hnd as [|? ? Hj Hnd']; subst.
    pose proof (leaves_list_ids cs _ Hin) as Hi. unfold lid in Hi. simpl in Hi.
    destruct (j =? i) eqn:E; [apply Nat.eqb_eq in E; subst; tauto|]. clear E Hj Hnd Hi.
    induction cs as [|[s c] r IHr]; [simpl in Hin; tauto|].
    inversion IH as [|? ? Hc Hr]; subst. rewrite leaves_list_cons in Hin. rewrite ids_list_cons in Hnd'.
    apply nodup_app_iff in Hnd'. destruct Hnd' as (Hn1 & Hn2 & Hdis).
    cbn [find_list]. apply in_app_or in Hin. destruct Hin as [Hin|Hin].
    + simpl in Hc. rewrite (Hc i nx es Hn1 Hin). reflexivity.
    + pose proof (leaves_list_ids r _ Hin) as Hir. unfold lid in Hir. simpl in Hir.
      rewrite find_notin by (intros Hx; apply (Hdis i Hx Hir)).
      apply IHr; auto.
Qed.

Lemma leaves_nodup : forall t : itree, NoDup (ids t) -> NoDup (map lid (leaves t)).
Proof.
  induction t as [i nx es|i cs IH] using itree_ind'; intros Hnd.
  - simpl. constructor; [tauto|constructor].
  - rewrite leaves_node. rewrite ids_node in Hnd. inversion Hnd as [|? ? _ Hnd']; subst. clear Hnd.
    induction cs as [|[s c] r IHr]; [constructor|].
    inversion IH as [|? ? Hc Hr]; subst. rewrite leaves_list_cons, map_app. rewrite ids_list_cons in Hnd'.
    apply nodup_app_iff in Hnd'. destruct Hnd' as (Hn1 & Hn2 & Hdis).
    apply nodup_app_iff. split; [apply Hc; exact Hn1|]. split; [apply IHr; assumption|].
    intros x Hx Hx2. apply in_map_iff in Hx. destruct Hx as (l1 & <- & Hl1).
    apply in_map_iff in Hx2. destruct Hx2 as (l2 & E & Hl2).
    apply (Hdis (lid l1)); [apply leaves_ids; exact Hl1|]. rewrite <- E. apply leaves_list_ids. exact Hl2.
Qed.

(* leaves through a context *)
Fixpoint lleaves (C : list (cframe K V)) : list leafrec :=
  match C with [] => [] | cf :: C' => lleaves C' ++ leaves_list (cpre cf) end.
Fixpoint rleaves (C : list (cframe K V)) : list leafrec :=
  match C with [] => [] | cf :: C' => leaves_list (cpost cf) ++ rleaves C' end.

Lemma leaves_plug C : forall sub : itree, leaves (plug C sub) = lleaves C ++ leaves sub ++ rleaves C.
Proof.
  induction C as [|cf C IH]; intros sub; simpl; [rewrite app_nil_r; reflexivity|].
  rewrite IH. unfold plug1. rewrite leaves_node, leaves_list_app, leaves_list_cons.
  rewrite <- !app_assoc. reflexivity.
Qed.

(* the chain through the leaves *)
Lemma chain_next (L : list leafrec) leaf nx es R :
  chain_ok (map llink (L ++ (leaf, nx, es) :: R)) ->
  match R with [] => nx = None | l :: _ => nx = Some (lid l) end.
Proof.
  induction L as [|a L IH]; cbn [app map].
  - rewrite chain_cons. intros [H _]. destruct R as [|l R]; exact H.
  - rewrite chain_cons. intros [_ H]. apply IH. exact H.
Qed.

(* ---- emptiness of leaves under the sequential invariant ---- *)
Notation tree := (tree K V).
Fixpoint tleaves (t : tree) : list (list (K * V)) :=
  match t with Leaf es => [es] | Node cs => flat_map (fun c => tleaves (snd c)) cs end.

Lemma tleaves_erase : forall t : itree, tleaves (erase_ids t) = map snd (leaves t).
Proof.
  induction t as [i nx es|i cs IH] using itree_ind'; [reflexivity|].
  rewrite erase_node, leaves_node. cbn [tleaves]. induction cs as [|[s c] r IHr]; [reflexivity|].
  inversion IH as [|? ? Hc Hr]; subst. rewrite erase_cs_cons, leaves_list_cons, map_app. cbn [flat_map snd].
  simpl in Hc. rewrite Hc. f_equal. apply IHr. exact Hr.
Qed.

Lemma tleaves_small order : forall t : tree, order <= 1 -> cap order t -> length (tleaves t) <= 1.
Proof.
  intros t Ho. induction t as [es|cs IH] using tree_ind'; intros Hc; [simpl; lia|].
  cbn [cap count] in Hc. destruct Hc as [Hl Hk]. cbn [tleaves].
  destruct cs as [|[s c] [|x cs]]; simpl in *; try lia.
  rewrite app_nil_r. inversion IH; subst. simpl in *. tauto.
Qed.

Lemma tleaves_nonempty order : forall t : tree,
  1 <= Nat.div2 order -> occ order false t -> Forall (fun es => es <> []) (tleaves t).
Proof.
  intros t Ho. induction t as [es|cs IH] using tree_ind'; intros Hocc.
  - simpl in Hocc. constructor; [|constructor]. destruct es; simpl in *; [lia|congruence].
  - apply occ_unfold in Hocc. destruct Hocc as (_ & _ & Hk). simpl in Hk. cbn [tleaves].
    rewrite all_kids_Forall in Hk. rewrite Forall_forall in *.
    intros es Hin. apply in_flat_map in Hin. destruct Hin as (c & Hc & Hes).
    specialize (IH c Hc (Hk c Hc)). rewrite Forall_forall in IH. auto.
Qed.

Lemma inv_leaves (ltb : K -> K -> bool) order (t : tree) :
  Inv ltb order t -> length (tleaves t) <= 1 \/ Forall (fun es => es <> []) (tleaves t).
Proof.
  intros (_ & _ & Hocc). destruct (Nat.le_gt_cases order 1) as [Hle|Hgt].
  - left. eapply tleaves_small; [exact Hle|]. eapply occ_cap; exact Hocc.
  - destruct t as [es|cs]; [left; simpl; lia|right].
    apply occ_unfold in Hocc. destruct Hocc as (_ & _ & Hk). simpl in Hk. cbn [tleaves].
    rewrite all_kids_Forall in Hk. rewrite Forall_forall in *.
    intros es Hin. apply in_flat_map in Hin. destruct Hin as (c & Hc & Hes).
    pose proof (tleaves_nonempty order (snd c)) as H. rewrite Forall_forall in H. apply H; auto.
    destruct order as [|[|order]]; simpl; lia.
Qed.

End Leaves.

Arguments leaves {K V}. Arguments leaves_list {K V}. Arguments lid {K V}. Arguments llink {K V}.
Arguments lleaves {K V}. Arguments rleaves {K V}.

(* ------------------------------------------------------------------------------------------------ *)
(* Search                                                                                             *)
(* ------------------------------------------------------------------------------------------------ *)
Ltac blk_pc Hpc := unfold blk; rewrite Hpc; cbv beta iota zeta.

Section Search.
Variables (K V : Type) (ltb : K -> K -> bool) (order : nat) (me : tid).
Notation itree := (itree K V).
Notation st := (st K V).
Variables (o : cop K V) (rest : list (cop K V)).

Definition SeaPost (T : itree) (fr : id) (s' : st) : Prop :=
  SoloInv me s' /\ me_at me s' Idle rest /\ tr s' = T /\ fresh s' = fr.

Lemma sea_ok : forall fuel key (sub : itree) C l fr tmx r,
  o = CSearch key ->
  search_loop ltb fuel key (erase_ids sub) = Ok r -> wfc C sub fr ->
  exists out, sea_descend ltb o (nid sub) (plug C sub) l fr tmx = Ok out /\
     OutOK ltb order me o rest out (SeaPost (plug C sub) fr) (RFound K r).
Proof.
  induction fuel as [|fuel IH]; intros key sub C l fr tmx r Ho Hs Hw; [discriminate Hs|].
  unfold sea_descend. rewrite (find_plug_self _ _ C sub fr Hw).
  destruct sub as [i nx es|i cs].
  - subst o. cbn [erase_ids search_loop key_of] in *.
    assert (E : (match es with [] => Ok None | _ :: _ =>
                  i0 <- search_ge ltb key (map fst es) ;; '(k', v) <- get_nth i0 es ;;
                  Ok (if eqvb ltb key k' then Some v else None) end) = Ok r).
    { destruct es; exact Hs. }
    rewrite E. cbn [bind]. eexists. split; [reflexivity|].
    intros s1 Hs1 Htr Hfr Hat. unfold Completes. simpl in *. split; [|now left].
    unfold SeaPost. auto.
  - rewrite erase_node in Hs. cbn [search_loop] in Hs. rewrite erase_cs_fst in Hs.
    replace (key_of o) with key by (subst o; reflexivity).
    destruct (search_le ltb key (map fst cs)) as [index|] eqn:Ei; [|discriminate Hs]. cbn [bind] in *.
    destruct (get_nth index (erase_cs cs)) as [[s e]|] eqn:Eg; [|discriminate Hs]. cbn [bind] in Hs.
    destruct (get_nth_erase _ _ index cs s e Eg) as (c & Hgc & Hec & Hnc). rewrite Hgc. cbn [bind].
    eexists. split; [reflexivity|].
    intros s1 Hs1 Htr Hfr Hat. simpl in Htr, Hfr, Hat. apply completes_of_runs; [reflexivity|].
    destruct Hat as (th1 & Hg1 & Hpc1 & Hpr1).
    destruct (nth_error_split _ _ Hnc) as (pre & post & -> & Hlen).
    pose proof (wfc_node _ _ _ _ _ _ _ _ _ Hw) as Hw'. subst e.
    destruct (IH key c (mkcf i pre s post :: C) (unlock i ((nid c, me) :: lk s1)) fr (tm s1) r Ho Hs Hw')
      as (out' & Ho' & Hok').
    eapply (solo_step_out K V ltb order me s1 th1 (Some (Some (nid c)))); eauto.
    + rewrite Hpc1. reflexivity.
    + eapply free_node; eauto. rewrite Hpc1. simpl. intros [E|[]].
      apply (wfc_child_neq _ _ _ _ _ _ _ _ _ Hw). auto.
    + blk_pc Hpc1. rewrite Htr, Hfr. rewrite plug_mkcf in Ho'. rewrite Ho'. reflexivity.
Qed.

End Search.

Arguments SeaPost {K V}.

Lemma skipn_nth_some {A} (l : list A) i e : nth_error l i = Some e -> skipn i l = e :: skipn (S i) l.
Proof.
  revert i. induction l as [|x l IH]; intros [|i] H; simpl in *; try discriminate.
  - inversion H; reflexivity.
  - apply IH. exact H.
Qed.
Lemma skipn_nth_none {A} (l : list A) i : nth_error l i = None -> skipn i l = [].
Proof. intros H. apply nth_error_None in H. apply skipn_all2. exact H. Qed.

(* ------------------------------------------------------------------------------------------------ *)
(* NewScanner, Scan*, Close                                                                           *)
(* ------------------------------------------------------------------------------------------------ *)
Section Scan.
Variables (K V : Type) (ltb : K -> K -> bool) (order : nat) (me : tid).
Notation itree := (itree K V).
Notation st := (st K V).
Variables (k : K) (cnt : nat) (rest : list (cop K V)) (T : itree) (fr : id).
Let o : cop K V := CScan k cnt.
Hypothesis HndT : NoDup (ids T).
Hypothesis HchT : chain_ok (leaf_links T).
Hypothesis HneT : length (leaves T) <= 1 \/ Forall (fun l => snd l <> []) (leaves T).

Lemma walk : forall n leaf i acc L nx es R s,
  SoloInv me s -> tr s = T -> fresh s = fr -> me_at me s (CurRest leaf i n acc) (o :: rest) ->
  leaves T = L ++ (leaf, nx, es) :: R ->
  Runs ltb order me s (SeaPost me rest T fr) (RPairs (rev acc ++ firstn n (skipn i es ++ flat_map snd R))).
Proof.
  induction n as [|n IH]; intros leaf i acc L nx es R s Hs Htr Hfr (th & Hg & Hpc & Hpr) HL.
  - eapply (solo_step_out K V ltb order me s th None o rest
             {| otr := T; olk := unlock leaf (lk s); ofresh := fr; otm := tm s; opc := Idle;
                oev := [EReturn (RPairs (rev acc))] |}); eauto.
    + rewrite Hpc. reflexivity.
    + blk_pc Hpc. rewrite Htr, Hfr. reflexivity.
    + intros s1 Hs1 Htr1 Hfr1 Hat1. unfold Completes. simpl in *. rewrite app_nil_r.
      split; [unfold SeaPost; auto|now left].
  - assert (Hfind : Conc.find leaf T = Some (ILeaf leaf nx es)).
    { apply leaves_find; [exact HndT|]. rewrite HL. apply in_or_app. right. now left. }
    destruct (nth_error es i) as [e|] eqn:En.
    + eapply (solo_step_out K V ltb order me s th None o rest
               {| otr := T; olk := lk s; ofresh := fr; otm := tm s; opc := CurRest leaf (S i) n (e :: acc);
                  oev := [EPair e] |}); eauto.
      * rewrite Hpc. reflexivity.
      * blk_pc Hpc. rewrite Htr, Hfr, Hfind, En. reflexivity.
      * intros s1 Hs1 Htr1 Hfr1 Hat1. simpl in *. apply completes_of_runs; [reflexivity|].
        rewrite (skipn_nth_some _ _ _ En). cbn [app firstn]. 
        replace (rev acc ++ e :: firstn n (skipn (S i) es ++ flat_map snd R))
          with (rev (e :: acc) ++ firstn n (skipn (S i) es ++ flat_map snd R))
          by (simpl; rewrite <- app_assoc; reflexivity).
        eapply IH; eauto.
    + rewrite (skipn_nth_none _ _ En). cbn [app].
      pose proof HchT as Hch. rewrite leaves_links, HL in Hch. apply chain_next in Hch.
      destruct R as [|[[x nx'] es'] R'].
      * subst nx.
        eapply (solo_step_out K V ltb order me s th None o rest
               {| otr := T; olk := unlock leaf (lk s); ofresh := fr; otm := tm s; opc := Idle;
                  oev := [EScanEnd; EReturn (RPairs (rev acc))] |}); eauto.
        -- rewrite Hpc. reflexivity.
        -- blk_pc Hpc. rewrite Htr, Hfr, Hfind, En. reflexivity.
        -- intros s1 Hs1 Htr1 Hfr1 Hat1. unfold Completes. simpl in *. rewrite app_nil_r.
           split; [unfold SeaPost; auto|right; now left].
      * unfold lid in Hch. simpl in Hch. subst nx.
        assert (Hne : es' <> []).
        { destruct HneT as [H|H]; [rewrite HL, app_length in H; simpl in H; lia|].
          rewrite Forall_forall in H. apply (H (x, nx', es')). rewrite HL. apply in_or_app. right. right. now left. }
        destruct es' as [|e es'']; [congruence|].
        assert (Hfx : Conc.find x T = Some (ILeaf x nx' (e :: es''))).
        { apply leaves_find; [exact HndT|]. rewrite HL. apply in_or_app. right. right. now left. }
        assert (Hxl : x <> leaf).
        { pose proof (leaves_nodup _ _ T HndT) as Hn. rewrite HL, map_app in Hn. simpl in Hn.
          apply NoDup_remove_2 in Hn. intros ->. apply Hn. apply in_or_app. right. now left. }
        eapply (solo_step_out K V ltb order me s th None o rest
               {| otr := T; olk := lk s; ofresh := fr; otm := tm s; opc := CurWantNext leaf x n acc;
                  oev := [] |}); eauto.
        -- rewrite Hpc. reflexivity.
        -- blk_pc Hpc. rewrite Htr, Hfr, Hfind, En. reflexivity.
        -- intros s1 Hs1 Htr1 Hfr1 (th1 & Hg1 & Hpc1 & Hpr1). simpl in *. apply completes_of_runs; [reflexivity|].
           eapply (solo_step_out K V ltb order me s1 th1 (Some (Some x)) o rest
               {| otr := T; olk := unlock leaf ((x, me) :: lk s1); ofresh := fr; otm := tm s1;
                  opc := CurRest x 1 n (e :: acc); oev := [EPair e] |}); eauto.
           ++ rewrite Hpc1. reflexivity.
           ++ eapply free_node; eauto. rewrite Hpc1. simpl. intros [E|[]]. auto.
           ++ blk_pc Hpc1. rewrite Htr1, Hfr1, Hfx. reflexivity.
           ++ intros s2 Hs2 Htr2 Hfr2 Hat2. simpl in *. apply completes_of_runs; [reflexivity|].
              replace (rev acc ++ e :: firstn n (es'' ++ flat_map snd R'))
                with (rev (e :: acc) ++ firstn n (skipn 1 (e :: es'') ++ flat_map snd R'))
                by (simpl; rewrite <- app_assoc; reflexivity).
              eapply (IH x 1 (e :: acc) (L ++ [(leaf, Some x, es)])); eauto.
              rewrite HL. rewrite <- app_assoc. reflexivity.
Qed.

Lemma scan_ok : forall fuel (sub : itree) C l tmx r,
  scan_loop ltb fuel k (erase_ids sub) = Ok r -> wfc C sub fr -> plug C sub = T ->
  exists out, sea_descend ltb o (nid sub) T l fr tmx = Ok out /\
     OutOK ltb order me o rest out (SeaPost me rest T fr) (RPairs (firstn cnt (r ++ flat_map snd (rleaves C)))).
Proof.
  induction fuel as [|fuel IH]; intros sub C l tmx r Hs Hw HT; [discriminate Hs|].
  assert (Hf : Conc.find (nid sub) T = Some sub) by (rewrite <- HT; apply (find_plug_self _ _ C sub fr Hw)).
  unfold sea_descend. rewrite Hf. clear Hf.
  destruct sub as [i nx es|i cs].
  - cbn [erase_ids scan_loop] in Hs. unfold o at 1. cbv beta iota.
    destruct (leaf_scan_pos ltb k es) as [p|] eqn:Ep; [|discriminate Hs]. cbn [bind] in *.
    inversion Hs; subst r; clear Hs.
    eexists. split; [reflexivity|].
    intros s1 Hs1 Htr Hfr Hat. simpl in Htr, Hfr, Hat. apply completes_of_runs; [reflexivity|].
    change (firstn cnt (skipn p es ++ flat_map snd (rleaves C)))
      with (rev [] ++ firstn cnt (skipn p es ++ flat_map snd (rleaves C))).
    eapply (walk cnt i p [] (lleaves C) nx es (rleaves C)); eauto.
    rewrite <- HT. rewrite leaves_plug. reflexivity.
  - rewrite erase_node in Hs. cbn [scan_loop] in Hs. rewrite erase_cs_fst in Hs.
    replace (key_of o) with k by reflexivity.
    destruct (search_le ltb k (map fst cs)) as [index|] eqn:Ei; [|discriminate Hs]. cbn [bind] in *.
    destruct (get_nth index (erase_cs cs)) as [[s e]|] eqn:Eg; [|discriminate Hs]. cbn [bind] in Hs.
    destruct (scan_loop ltb fuel k e) as [r'|] eqn:Er; [|discriminate Hs]. cbn [bind] in Hs.
    inversion Hs; subst r; clear Hs.
    destruct (get_nth_erase _ _ index cs s e Eg) as (c & Hgc & Hec & Hnc). rewrite Hgc. cbn [bind].
    eexists. split; [reflexivity|].
    intros s1 Hs1 Htr Hfr Hat. simpl in Htr, Hfr, Hat. apply completes_of_runs; [reflexivity|].
    destruct Hat as (th1 & Hg1 & Hpc1 & Hpr1).
    destruct (nth_error_split _ _ Hnc) as (pre & post & -> & Hlen).
    pose proof (wfc_node _ _ _ _ _ _ _ _ _ Hw) as Hw'. subst e.
    destruct (IH c (mkcf i pre s post :: C) (unlock i ((nid c, me) :: lk s1)) (tm s1) r' Er Hw' HT)
      as (out' & Ho' & Hok').
    assert (Hres : (r' ++ flat_map (fun c0 => entries (snd c0)) (skipn (S index) (erase_cs (pre ++ (s, c) :: post))))
                    ++ flat_map snd (rleaves C)
                  = r' ++ flat_map snd (rleaves (mkcf i pre s post :: C))).
    { rewrite <- app_assoc. f_equal. cbn [rleaves cpost mkcf]. rewrite flat_map_app. f_equal.
      rewrite erase_cs_app, erase_cs_cons. subst index. rewrite <- (erase_cs_length _ _ pre).
      rewrite skipn_S_app_len. apply leaves_list_entries. }
    match goal with |- Runs _ _ _ _ _ (RPairs (firstn cnt ?X)) =>
      replace X with (r' ++ flat_map snd (rleaves (mkcf i pre s post :: C))) by (symmetry; exact Hres) end.
    eapply (solo_step_out K V ltb order me s1 th1 (Some (Some (nid c)))); eauto.
    + rewrite Hpc1. reflexivity.
    + eapply free_node; eauto. rewrite Hpc1. simpl. intros [E|[]].
      apply (wfc_child_neq _ _ _ _ _ _ _ _ _ Hw). auto.
    + blk_pc Hpc1. rewrite Htr, Hfr. rewrite Ho'. reflexivity.
Qed.

End Scan.

"""Dispatch: property id -> check."""
from . import props_seq, props_sched, props_misc


def run(pid, tier, seed):
    if pid in ("C01", "C02", "C11"):
        return props_seq.run_seq_property(pid, tier, seed)
    if pid in ("C03", "C04", "C06", "C10"):
        return props_sched.run_sched_property(pid, tier, seed, level="proof")
    if pid in ("C05", "C08", "C09"):
        # sequential half (all six types, every history) + scheduled half
        rc1 = props_seq.run_seq_property(pid, tier, seed, write=False)
        seq = dict(props_seq.LAST)
        rc2 = props_sched.run_sched_property(pid, tier, seed, seq_part=seq, level="proof")
        return 1 if (rc1 or rc2) else 0
    if pid == "C07":
        return props_misc.run_c07(tier, seed)
    if pid == "C12":
        return props_misc.run_c12(tier, seed)
    raise SystemExit("unknown property " + pid)

(* ASM_Proof.v — the FINAL ASSEMBLY: one inductive invariant [BigInv] put together from the per-component
   preservation theorems, and the payoff theorems for every reachable state (structural invariant, no panic, no
   deadlock, linearizability by linearization points).  See the summary at the end of the file. *)
From Coq Require Import List Bool PeanoNat Lia.
From GB Require Import LinDef SoloBase LINc_Blocks LINc_Proof LockProof FrameProof GIa1_Proof GIa2_Proof
  PCb1_Proof PCb2_Proof PCb2_RightFree OCCc_Blocks OCCc_Proof OCCc_Op OCCc_Crash LINa_Proof LINb_Proof LINb_Prog
  NoDeadlock.
Import ListNotations.

(* ------------------------------------------------------------------------------------------------ *)
(* Part 0: small facts about steps that need no invariant                                            *)
(* ------------------------------------------------------------------------------------------------ *)
Section StepFacts.
Variables (K V : Type) (ltb : K -> K -> bool).
Variable order : nat.
Notation st := (st K V).

(* the four copies of [is_delete_pc] are the same function *)
Lemma is_delete_pc_a1 (p : pc K V) : GIa1_Proof.is_delete_pc K V p = LINb_Proof.is_delete_pc K V p.
Proof. reflexivity. Qed.
Lemma is_delete_pc_a2 (p : pc K V) : GIa2_Proof.is_delete_pc K V p = LINb_Proof.is_delete_pc K V p.
Proof. reflexivity. Qed.
Lemma is_delete_pc_la (p : pc K V) : LINa_Core.is_delete_pc K V p = LINb_Proof.is_delete_pc K V p.
Proof. reflexivity. Qed.

Lemma stepped_thread (s s' : st) me acq ev :
  cstep ltb order s me = Stepped s' acq ev -> exists th, get_thread me (ths s) = Some th.
Proof.
  intros Hc. destruct (cstep_unpack _ _ _ _ _ _ _ _ _ Hc) as (th & o & Hg & _). exists th. exact Hg.
Qed.

Lemma nothread_step (s : st) me :
  get_thread me (ths s) = None -> cstep ltb order s me = NoThread.
Proof. intros Hg. rewrite cstep_eq, Hg. reflexivity. Qed.

Lemma step_other_thread (s s' : st) me acq ev t :
  cstep ltb order s me = Stepped s' acq ev -> t <> me -> get_thread t (ths s') = get_thread t (ths s).
Proof.
  intros Hc Hne. destruct (cstep_unpack _ _ _ _ _ _ _ _ _ Hc) as (th & o & Hg & _ & -> & _).
  apply commit_other. exact Hne.
Qed.

Lemma step_thread_ids (s s' : st) me acq ev :
  cstep ltb order s me = Stepped s' acq ev -> map fst (ths s') = map fst (ths s).
Proof.
  intros Hc. destruct (cstep_unpack _ _ _ _ _ _ _ _ _ Hc) as (th & o & Hg & _ & -> & _).
  unfold commit. simpl. apply map_fst_set_thread.
Qed.

(* from a statement about every thread to the [forallb] over the thread table *)
Lemma all_pc_ok_intro (s : st) :
  NoDup (map fst (ths s)) ->
  (forall t th, get_thread t (ths s) = Some th -> pc_ok_b ltb order (tr s) (tpc th) = true) ->
  all_pc_ok_b ltb order s = true.
Proof.
  intros Hnd H. unfold all_pc_ok_b. apply forallb_forall. intros [t th] Hin. simpl.
  apply (H t th). apply in_get_thread; assumption.
Qed.

Lemma all_pc_ok_elim (s : st) t th :
  all_pc_ok_b ltb order s = true -> get_thread t (ths s) = Some th ->
  pc_ok_b ltb order (tr s) (tpc th) = true.
Proof.
  intros H Hg. unfold all_pc_ok_b in H. rewrite forallb_forall in H.
  apply (H (t, th)). eapply get_thread_in. exact Hg.
Qed.

(* all threads of the initial state are Idle: the two init facts taken as hypotheses below are provable outright
   (offered here so that the instantiation of the section can use them) *)
Lemma all_pc_ok2_init_proved progs : all_pc_ok2_b (init_st (K:=K) (V:=V) progs) = true.
Proof.
  unfold all_pc_ok2_b, init_st. simpl. apply forallb_forall. intros e Hin.
  apply in_map_iff in Hin. destruct Hin as (p & <- & _). reflexivity.
Qed.
Lemma all_pc_ok3_init_proved progs : all_pc_ok3_b ltb (init_st (K:=K) (V:=V) progs) = true.
Proof.
  unfold all_pc_ok3_b, init_st. simpl. apply forallb_forall. intros e Hin.
  apply in_map_iff in Hin. destruct Hin as (p & <- & _). reflexivity.
Qed.

End StepFacts.

(* ------------------------------------------------------------------------------------------------ *)
(* Part 1: the invariant                                                                             *)
(* ------------------------------------------------------------------------------------------------ *)
Section ASM.
Variables (K V : Type) (ltb : K -> K -> bool).
Hypothesis HS : SWO ltb.
Variable order : nat.
Hypothesis Heven : Nat.even order = true.
Hypothesis H4 : 4 <= order.
Notation st := (st K V).

Definition Base (s : st) : Prop :=
  CIall ltb order s /\ all_small_b order s = true /\ all_op_b s = true /\ rfi_b K V s = true.

Definition BigInv (s : st) : Prop :=
  CIall ltb order s /\ all_small_b order s = true /\ all_op_b s = true /\ rfi_b K V s = true /\
  LINa_Proof.lin_extra K V s /\ LINb_Prog.prog_ok K V s.

Lemma BigInv_Base s : BigInv s -> Base s.
Proof. intros (A & B & C & D & _). unfold Base. tauto. Qed.

(* the three facts proved elsewhere (discharged by instantiation) *)
Hypothesis pc_ok2_step : forall (s s' : st) me acq ev, Base s ->
  cstep ltb order s me = Stepped s' acq ev -> all_pc_ok2_b s' = true.
Hypothesis pc_ok3_step : forall (s s' : st) me acq ev, Base s ->
  cstep ltb order s me = Stepped s' acq ev -> all_pc_ok3_b ltb s' = true.
Hypothesis decided_other_step : forall (s s' : st) me acq ev t, Base s ->
  cstep ltb order s me = Stepped s' acq ev -> t <> me -> decided ltb s' t = decided ltb s t.
Hypothesis all_pc_ok2_init : forall progs, all_pc_ok2_b (init_st (K:=K) (V:=V) progs) = true.
Hypothesis all_pc_ok3_init : forall progs, all_pc_ok3_b ltb (init_st (K:=K) (V:=V) progs) = true.

Lemma order2 : 2 <= order. Proof. lia. Qed.

(* ---- the initial state ---- *)
Lemma GI_init progs : GI ltb order (init_st (K:=K) (V:=V) progs).
Proof.
  unfold GI, init_st. simpl. split; [|split; [|split; [|split; [|split]]]].
  - constructor; [intros []|constructor].
  - constructor; [apply Nat.lt_0_1|constructor].
  - exact Logic.I.
  - exact Logic.I.
  - split; [apply Nat.le_0_l|exact Logic.I].
  - reflexivity.
Qed.

Lemma all_pc_ok_init progs : all_pc_ok_b ltb order (init_st (K:=K) (V:=V) progs) = true.
Proof.
  unfold all_pc_ok_b, init_st. simpl. apply forallb_forall. intros e Hin.
  apply in_map_iff in Hin. destruct Hin as (p & <- & _). reflexivity.
Qed.

Lemma occ_ok_init progs : occ_ok_b order (init_st (K:=K) (V:=V) progs) = true.
Proof.
  unfold occ_ok_b. simpl. rewrite orb_true_r. reflexivity.
Qed.

Lemma CIall_init progs : NoDup (map fst progs) -> CIall ltb order (init_st (K:=K) (V:=V) progs).
Proof.
  intros Hnd. unfold CIall, CIfull, CI.
  split; [split; [split; [|split]|]|split; [|split; [|split]]].
  - apply GI_init.
  - apply lock_inv2_init; exact Hnd.
  - apply all_pc_ok_init.
  - apply occ_ok_init.
  - apply all_inv_init; exact Hnd.
  - apply all_left_pos_init.
  - apply all_pc_ok2_init.
  - apply all_pc_ok3_init.
Qed.

Theorem BigInv_init : forall progs, NoDup (map fst progs) -> BigInv (init_st progs).
Proof.
  intros progs Hnd. unfold BigInv. split; [|split; [|split; [|split; [|split]]]].
  - apply CIall_init; exact Hnd.
  - apply all_small_init.
  - apply all_op_init.
  - apply rfi_b_init.
  - apply lin_extra_init.
  - apply LINb_Prog.prog_ok_init.
Qed.

(* ---- one step ---- *)
Lemma GI_step s s' me acq ev :
  CIfull ltb order s -> all_inv K V s -> cstep ltb order s me = Stepped s' acq ev -> GI ltb order s'.
Proof.
  intros HF HA Hc. destruct (stepped_thread K V ltb order s s' me acq ev Hc) as (th & Hg).
  destruct (LINb_Proof.is_delete_pc K V (tpc th)) eqn:Ed.
  - eapply gi_step_delete; eauto.
  - eapply gi_step_nondelete; eauto using order2. exact (proj1 HF).
Qed.

Lemma all_pc_ok_step s s' me acq ev :
  CIfull ltb order s -> all_inv K V s -> all_left_pos_b K V s = true -> rfi_b K V s = true ->
  lock_inv2 K V s' ->
  cstep ltb order s me = Stepped s' acq ev -> all_pc_ok_b ltb order s' = true.
Proof.
  intros HF HA HL HR HL2' Hc. apply all_pc_ok_intro.
  - exact (proj1 (proj2 (proj1 HL2'))).
  - intros t th' Hg'. destruct (Nat.eq_dec t me) as [->|Hne].
    + eapply own_pc_ok_step_x; eauto.
    + rewrite (step_other_thread K V ltb order s s' me acq ev t Hc Hne) in Hg'.
      eapply other_pc_ok_step_rfi; eauto.
Qed.

Lemma CIfull_step s s' me acq ev :
  Base s -> cstep ltb order s me = Stepped s' acq ev -> CIfull ltb order s'.
Proof.
  intros ((HF & HA & HL & _ & _) & HSm & _ & HR) Hc.
  assert (HL2' : lock_inv2 K V s').
  { eapply lock_inv2_step; [|exact Hc]. exact (proj1 (proj2 (proj1 HF))). }
  split; [split; [|split]|].
  - eapply GI_step; eauto.
  - exact HL2'.
  - eapply all_pc_ok_step; eauto.
  - eapply occ_step; eauto.
Qed.

Lemma Base_step s s' me acq ev :
  Base s -> cstep ltb order s me = Stepped s' acq ev -> Base s'.
Proof.
  intros HB Hc. pose proof (CIfull_step _ _ _ _ _ HB Hc) as HF'.
  pose proof HB as ((HF & HA & HL & _ & _) & HSm & HOp & HR).
  unfold Base, CIall. split; [split; [|split; [|split; [|split]]]|split; [|split]].
  - exact HF'.
  - eapply all_inv_step; eauto.
  - eapply all_left_pos_step; eauto.
  - eapply pc_ok2_step; eauto.
  - eapply pc_ok3_step; eauto.
  - eapply small_step; eauto.
  - eapply op_step; eauto.
  - eapply rfi_b_step; eauto.
Qed.

Theorem BigInv_step : forall s s' me acq ev,
  BigInv s -> cstep ltb order s me = Stepped s' acq ev -> BigInv s'.
Proof.
  intros s s' me acq ev HB Hc. pose proof (BigInv_Base _ HB) as Hb.
  destruct (Base_step _ _ _ _ _ Hb Hc) as (A & B & C & D).
  destruct HB as (HC & _ & _ & _ & HLE & HPO).
  unfold BigInv. split; [|split; [|split; [|split; [|split]]]]; try assumption.
  - exact (lin_extra_step K V ltb HS order s s' me acq ev Heven order2 HC HLE Hc).
  - eapply LINb_Prog.prog_ok_step; eauto.
Qed.

Lemma BigInv_exec : forall sched s, BigInv s -> BigInv (fst (exec ltb order s sched)).
Proof.
  induction sched as [|t r IH]; intros s HB; simpl; [exact HB|].
  destruct (cstep ltb order s t) as [ | | |s' acq ev|p] eqn:Hc; try exact HB.
  specialize (IH s' (BigInv_step _ _ _ _ _ HB Hc)).
  destruct (exec ltb order s' r) as [s'' h]. exact IH.
Qed.

Theorem BigInv_reachable : forall progs sched, NoDup (map fst progs) ->
  BigInv (fst (exec ltb order (init_st progs) sched)).
Proof. intros progs sched Hnd. apply BigInv_exec. apply BigInv_init. exact Hnd. Qed.

(* ------------------------------------------------------------------------------------------------ *)
(* Part 2: payoff theorems                                                                           *)
(* ------------------------------------------------------------------------------------------------ *)

(* C08: the structural invariant holds in every reachable state *)
Theorem GI_reachable : forall (progs : list (tid * list (cop K V))) sched, NoDup (map fst progs) ->
  GI ltb order (fst (exec ltb order (init_st progs) sched)).
Proof.
  intros progs sched Hnd. destruct (BigInv_reachable progs sched Hnd) as (HC & _).
  exact (proj1 (proj1 (proj1 HC))).
Qed.

(* the whole concurrent invariant CIall (GI, lock table, pcs consistent with the tree, occupancy, frames) too *)
Theorem CIall_reachable : forall (progs : list (tid * list (cop K V))) sched, NoDup (map fst progs) ->
  CIall ltb order (fst (exec ltb order (init_st progs) sched)).
Proof. intros progs sched Hnd. exact (proj1 (BigInv_reachable progs sched Hnd)). Qed.

(* no step of a reachable state panics *)
Theorem no_crash_reachable : forall (progs : list (tid * list (cop K V))) sched me p, NoDup (map fst progs) ->
  cstep ltb order (fst (exec ltb order (init_st progs) sched)) me <> Crash p.
Proof.
  intros progs sched me p Hnd.
  destruct (BigInv_reachable progs sched Hnd) as ((HF & HA & _) & HSm & HOp & _).
  apply no_crash; assumption.
Qed.

(* C06: no deadlock in any reachable state *)
Theorem no_deadlock_reachable : forall (progs : list (tid * list (cop K V))) sched, NoDup (map fst progs) ->
  let s := fst (exec ltb order (init_st progs) sched) in
  (exists t, unfinished s t = true) -> exists t, enabled order s t = true.
Proof.
  intros progs sched Hnd s Hun. subst s.
  destruct (BigInv_reachable progs sched Hnd) as ((HF & _ & _ & H2 & _) & _).
  eapply ci2_no_deadlock; [|exact Hun]. split; [exact (proj1 HF)|exact H2].
Qed.

(* ---- C03: linearizability.  LINc_Proof's Section Assembly re-done for an arbitrary invariant I ---- *)
Section GenAssembly.
Variable I : st -> Prop.
Hypothesis G1 : forall (s : st) me, I s -> abs_step_ok ltb order s me.
Hypothesis G2 : forall (s : st) me, I s -> promise_step_ok ltb order s me.
Hypothesis G3 : forall (progs : list (tid * list (cop K V))) sched, NoDup (map fst progs) ->
  I (fst (exec ltb order (init_st progs) sched)).

Lemma ghost_ok_exec_gen : forall sched (i : istate K V),
  (forall sched', I (is_st (iexec ltb order i sched'))) ->
  ghost_ok ltb i -> ghost_ok ltb (iexec ltb order i sched).
Proof.
  induction sched as [|t r IH]; intros i HCI Hok; simpl; [exact Hok|].
  destruct (istep ltb order i t) as [[i' ev]|] eqn:Hi; [|exact Hok].
  apply IH.
  - intros sched'. specialize (HCI (t :: sched')). simpl in HCI. rewrite Hi in HCI. exact HCI.
  - pose proof (HCI []) as C0. simpl in C0. eapply ghost_ok_step; eauto.
Qed.

Lemma reachable_I (progs : list (tid * list (cop K V))) sched : NoDup (map fst progs) ->
  I (is_st (iexec ltb order (iinit progs) sched)).
Proof. intros Hnd. rewrite iexec_st. simpl. apply G3. exact Hnd. Qed.

Theorem ghost_ok_reachable_gen (progs : list (tid * list (cop K V))) sched : NoDup (map fst progs) ->
  ghost_ok ltb (iexec ltb order (iinit progs) sched).
Proof.
  intros Hnd. apply ghost_ok_exec_gen; [intros sched'; apply reachable_I; exact Hnd|apply ghost_ok_init].
Qed.

Theorem linearizable_by_lps_gen : forall (progs : list (tid * list (cop K V))) sched me,
  NoDup (map fst progs) ->
  lin_step_ok ltb order (iexec ltb order (iinit progs) sched) me.
Proof.
  intros progs sched me Hnd. pose proof (reachable_I progs sched Hnd) as C.
  apply ghost_ok_lin; [apply G1; exact C|apply G2; exact C|apply ghost_ok_reachable_gen; exact Hnd].
Qed.
End GenAssembly.

Lemma BigInv_abs_step_ok : forall (s : st) me, BigInv s -> abs_step_ok ltb order s me.
Proof.
  intros s me (HC & _ & _ & _ & HLE & HPO).
  destruct (get_thread me (ths s)) as [th|] eqn:Hg.
  - destruct (LINb_Proof.is_delete_pc K V (tpc th)) eqn:Ed.
    + eapply abs_step_delete; eauto.
    + eapply abs_step_nondelete; eauto.
  - intros s' acq ev Hc. rewrite (nothread_step K V ltb order s me Hg) in Hc. discriminate.
Qed.

Lemma BigInv_promise_step_ok : forall (s : st) me, BigInv s -> promise_step_ok ltb order s me.
Proof.
  intros s me HB s' acq ev Hc. split.
  - intros Hd. eapply promise_own; eauto. exact (proj1 HB).
  - intros t Hne. eapply decided_other_step; eauto. apply BigInv_Base; exact HB.
Qed.

(* C03: linearizability by linearization points *)
Theorem linearizable : forall (progs : list (tid * list (cop K V))) sched me, NoDup (map fst progs) ->
  lin_step_ok ltb order (iexec ltb order (iinit progs) sched) me.
Proof.
  apply (linearizable_by_lps_gen BigInv BigInv_abs_step_ok BigInv_promise_step_ok BigInv_reachable).
Qed.

End ASM.

Check BigInv_init.
Check BigInv_step.
Check BigInv_reachable.
Check GI_reachable.
Check CIall_reachable.
Check no_crash_reachable.
Check no_deadlock_reachable.
Check linearizable.
Print Assumptions BigInv_reachable.
Print Assumptions GI_reachable.
Print Assumptions no_crash_reachable.
Print Assumptions no_deadlock_reachable.
Print Assumptions linearizable.

(* SUMMARY (agent ASM).  Everything above is proved; no axioms (all five "Closed under the global context").

   BigInv K V ltb order s :=
     CIall ltb order s /\ all_small_b order s = true /\ all_op_b s = true /\ rfi_b K V s = true /\
     LINa_Proof.lin_extra K V s /\ LINb_Prog.prog_ok K V s            (lin_extra takes no ltb)
   Base K V ltb order s := the first four conjuncts.

   After the section the theorems BigInv_step, BigInv_reachable, GI_reachable, CIall_reachable,
   no_crash_reachable, no_deadlock_reachable have the premises
     SWO ltb, Nat.even order = true, 4 <= order, pc_ok2_step, pc_ok3_step, all_pc_ok2_init, all_pc_ok3_init
   (BigInv_step does not use the two init premises; BigInv_init uses only the two init premises), and
   linearizable has in addition decided_other_step.  The two init premises are proved outright above
   (all_pc_ok2_init_proved, all_pc_ok3_init_proved), so only pc_ok2_step, pc_ok3_step, decided_other_step remain
   to be supplied.

   Component fit: no component needed anything BigInv does not provide.  Notes:
   - no_crash is in OCCc_Crash.v; all_small_b / all_op_b are OCCc_Blocks.*; rfi_b is PCb2_RightFree.rfi_b.
   - the four is_delete_pc (GIa1_Proof, GIa2_Proof, LINa_Core, LINb_Proof) are convertible (is_delete_pc_a1/a2/la).
   - gi_step_nondelete wants CI (first half of CIfull) and 2 <= order; lin_extra_step wants 2 <= order (from H4).
   - rfi_b_step wants CIfull of the post-state: CIfull_step is proved first (GI, lock_inv2, all_pc_ok_b, occ_ok_b).
   - LINc_Proof's Section Assembly is redone for an arbitrary invariant I (Section GenAssembly:
     ghost_ok_exec_gen, reachable_I, ghost_ok_reachable_gen, linearizable_by_lps_gen) and instantiated with BigInv. *)

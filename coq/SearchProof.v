(* SearchProof.v — the literal binary search (goto loop of <type>SearchGreaterThanOrEqualTo and its
   LessThanOrEqualTo wrapper) meets its specification on every strictly ascending slice: it terminates
   within its fuel, never indexes out of range, and returns the clamped position. *)
From Coq Require Import List Bool Lia PeanoNat Sorted.
From GB Require Import Model Inv ListLemmas.
Import ListNotations.

Section S.
Variables (K : Type) (ltb : K -> K -> bool).
Hypothesis HS : SWO ltb.
Notation lt := (lt ltb).
Notation le := (le ltb).

Lemma ltb_irrefl a : ltb a a = false. Proof. apply (swo_irrefl HS). Qed.
Lemma ltb_trans a b c : ltb a b = true -> ltb b c = true -> ltb a c = true. Proof. apply (swo_trans HS). Qed.
Lemma ltb_negtrans a b c : ltb a b = false -> ltb b c = false -> ltb a c = false. Proof. apply (swo_negtrans HS). Qed.
Lemma ltb_negtrans' a b c : ltb a c = true -> ltb a b = true \/ ltb b c = true.
Proof.
  intros H. destruct (ltb a b) eqn:E1; [now left|]. destruct (ltb b c) eqn:E2; [now right|].
  rewrite (ltb_negtrans _ _ _ E1 E2) in H. discriminate.
Qed.
Lemma lt_asym a b : ltb a b = true -> ltb b a = false.
Proof. intros H. destruct (ltb b a) eqn:E; [|reflexivity]. pose proof (ltb_trans _ _ _ H E) as X. rewrite ltb_irrefl in X. discriminate. Qed.
Lemma lt_le_trans a b c : ltb a b = true -> ltb c b = false -> ltb a c = true.
Proof. intros H1 H2. destruct (ltb_negtrans' a c b H1) as [X|X]; [exact X|congruence]. Qed.
Lemma le_lt_trans a b c : ltb b a = false -> ltb b c = true -> ltb a c = true.
Proof. intros H1 H2. destruct (ltb_negtrans' b a c H2) as [X|X]; [congruence|exact X]. Qed.

(* asc (adjacent) and StronglySorted agree under transitivity *)
Lemma asc_cons_inv k ks : asc ltb (k :: ks) -> asc ltb ks.
Proof. destruct ks as [|k' ks]; simpl; tauto. Qed.
Lemma asc_forall k ks : asc ltb (k :: ks) -> Forall (fun x => ltb k x = true) ks.
Proof.
  revert k. induction ks as [|k' ks IH]; intros k H; [constructor|].
  destruct H as [H1 H2]. constructor; [exact H1|].
  specialize (IH k' H2). eapply Forall_impl; [|exact IH]. intros x Hx. eapply ltb_trans; eauto.
Qed.
Lemma asc_sorted ks : asc ltb ks -> StronglySorted (fun a b => ltb a b = true) ks.
Proof.
  induction ks as [|k ks IH]; intros H; constructor.
  - apply IH. eapply asc_cons_inv; eauto.
  - apply asc_forall; exact H.
Qed.
Lemma sorted_asc ks : StronglySorted (fun a b => ltb a b = true) ks -> asc ltb ks.
Proof.
  induction 1 as [|k ks Hs IH Hall]; [exact I|]. destruct ks as [|k' ks]; [exact I|].
  split; [inversion Hall; assumption|exact IH].
Qed.

(* number of leading elements strictly below key *)
Fixpoint count_lt (key : K) (vs : list K) : nat :=
  match vs with [] => 0 | v :: vs' => if ltb v key then S (count_lt key vs') else 0 end.
(* number of leading elements not above key *)
Fixpoint count_le (key : K) (vs : list K) : nat :=
  match vs with [] => 0 | v :: vs' => if ltb key v then 0 else S (count_le key vs') end.

Lemma count_lt_le key vs : count_lt key vs <= length vs.
Proof. induction vs as [|v vs IH]; simpl; [lia|]. destruct (ltb v key); lia. Qed.
Lemma count_le_le key vs : count_le key vs <= length vs.
Proof. induction vs as [|v vs IH]; simpl; [lia|]. destruct (ltb key v); lia. Qed.

Notation SS := (StronglySorted (fun a b => ltb a b = true)).

Lemma sorted_below key vs i v :
  SS vs -> nth_error vs i = Some v -> i < count_lt key vs -> ltb v key = true.
Proof.
  intros Hs; revert i; induction Hs as [|a l Hs IH Hall]; intros i Hn Hi; simpl in *.
  - destruct i; discriminate.
  - destruct (ltb a key) eqn:Ha; [|lia]. destruct i as [|i]; simpl in Hn.
    + now inversion Hn; subst.
    + apply (IH i); [exact Hn | lia].
Qed.

Lemma sorted_above key vs i v :
  SS vs -> nth_error vs i = Some v -> count_lt key vs <= i -> ltb v key = false.
Proof.
  intros Hs; revert i; induction Hs as [|a l Hs IH Hall]; intros i Hn Hi; simpl in *.
  - destruct i; discriminate.
  - destruct (ltb a key) eqn:Ha.
    + destruct i as [|i]; [lia|]. simpl in Hn. apply (IH i); [exact Hn | lia].
    + destruct i as [|i]; simpl in Hn.
      * now inversion Hn; subst.
      * assert (Hav : ltb a v = true). { rewrite Forall_forall in Hall. apply Hall. eapply nth_error_In; eauto. }
        destruct (ltb v key) eqn:Hv; [|reflexivity].
        assert (ltb a key = true) by (eapply ltb_trans; eauto). congruence.
Qed.

Lemma sorted_nth_lt vs i j a b : SS vs -> nth_error vs i = Some a -> nth_error vs j = Some b -> i < j -> ltb a b = true.
Proof.
  intros Hs; revert i j. induction Hs as [|x l Hs IH Hall]; intros i j Hi Hj Hlt.
  - destruct i; discriminate.
  - destruct j as [|j]; [lia|]. destruct i as [|i]; simpl in *.
    + inversion Hi; subst. rewrite Forall_forall in Hall. apply Hall. eapply nth_error_In; eauto.
    + eapply IH; eauto. lia.
Qed.

Definition ge_spec key vs := Nat.min (count_lt key vs) (length vs - 1).

Lemma ge_loop_spec key vs : SS vs ->
  forall fuel lo hi,
    lo < hi -> hi < length vs -> hi - lo < fuel ->
    lo <= count_lt key vs ->
    (count_lt key vs <= hi \/ hi = length vs - 1) ->
    ge_loop ltb fuel key vs lo hi = Ok (Nat.min (count_lt key vs) hi).
Proof.
  intros Hs. induction fuel as [|f IH]; intros lo hi Hle Hhi Hf Hlo Hup; [lia|].
  cbn [ge_loop].
  assert (Hm : Nat.div2 (lo + hi) = (lo + hi) / 2) by (rewrite Nat.div2_div; reflexivity).
  set (m := Nat.div2 (lo + hi)).
  assert (Hmlo : lo <= m) by (subst m; rewrite Hm; apply Nat.div_le_lower_bound; lia).
  assert (Hmlt : m < hi) by (subst m; rewrite Hm; apply Nat.div_lt_upper_bound; lia).
  clearbody m. clear Hm.
  destruct (nth_error vs m) as [v|] eqn:Hn.
  2:{ apply nth_error_None in Hn. lia. }
  destruct (ltb key v) eqn:Hkv.
  - assert (Hc : count_lt key vs <= m).
    { destruct (Nat.le_gt_cases (count_lt key vs) m) as [H|H]; [exact H|].
      pose proof (sorted_below key vs m v Hs Hn H) as Hb.
      assert (ltb key key = true) by (eapply ltb_trans; eauto). rewrite ltb_irrefl in *. discriminate. }
    destruct (lo <? m) eqn:Hlm.
    + apply Nat.ltb_lt in Hlm. rewrite IH; try lia. f_equal. lia.
    + apply Nat.ltb_ge in Hlm. f_equal. lia.
  - destruct (ltb v key) eqn:Hvk.
    + assert (Hc : m < count_lt key vs).
      { destruct (Nat.le_gt_cases (count_lt key vs) m) as [H|H]; [|exact H].
        pose proof (sorted_above key vs m v Hs Hn H). congruence. }
      destruct (m + 1 <? hi) eqn:Hmh.
      * apply Nat.ltb_lt in Hmh. rewrite IH; try lia. reflexivity.
      * apply Nat.ltb_ge in Hmh. f_equal. lia.
    + assert (Hc1 : count_lt key vs <= m).
      { destruct (Nat.le_gt_cases (count_lt key vs) m) as [H|H]; [exact H|].
        pose proof (sorted_below key vs m v Hs Hn H). congruence. }
      assert (Hc2 : m <= count_lt key vs).
      { destruct (Nat.le_gt_cases m (count_lt key vs)) as [H|H]; [exact H|].
        exfalso.
        destruct (nth_error vs (count_lt key vs)) as [w|] eqn:Hw.
        2:{ apply nth_error_None in Hw. lia. }
        pose proof (sorted_above key vs _ w Hs Hw (Nat.le_refl _)) as Hwk.
        assert (Hwv : ltb w v = true) by (eapply sorted_nth_lt; eauto).
        destruct (ltb_negtrans' w key v Hwv) as [H1|H1]; congruence. }
      f_equal. lia.
Qed.

Theorem search_ge_spec key vs : asc ltb vs ->
  search_ge ltb key vs = Ok (ge_spec key vs).
Proof.
  intros Ha. pose proof (asc_sorted vs Ha) as Hs. unfold search_ge, ge_spec.
  destruct (length vs <=? 1) eqn:Hl.
  - apply Nat.leb_le in Hl. f_equal. pose proof (count_lt_le key vs). lia.
  - apply Nat.leb_gt in Hl. rewrite ge_loop_spec; try lia; auto.
Qed.

(* on an ascending list the elements not above key are the leading ones; relation of the two counts *)
Lemma count_lt_le_count_le key vs : count_lt key vs <= count_le key vs.
Proof.
  induction vs as [|v vs IH]; simpl; [lia|].
  destruct (ltb v key) eqn:E1.
  - rewrite (lt_asym _ _ E1). lia.
  - destruct (ltb key v); lia.
Qed.

Lemma count_le_above key vs i v : SS vs -> nth_error vs i = Some v -> count_le key vs <= i -> ltb key v = true.
Proof.
  intros Hs; revert i; induction Hs as [|a l Hs IH Hall]; intros i Hn Hi; simpl in *.
  - destruct i; discriminate.
  - destruct (ltb key a) eqn:Ha.
    + destruct i as [|i]; simpl in Hn; [now inversion Hn; subst|].
      assert (Hav : ltb a v = true). { rewrite Forall_forall in Hall. apply Hall. eapply nth_error_In; eauto. }
      eapply ltb_trans; eauto.
    + destruct i as [|i]; [lia|]. simpl in Hn. apply (IH i); [exact Hn|lia].
Qed.
Lemma count_le_below key vs i v : SS vs -> nth_error vs i = Some v -> i < count_le key vs -> ltb key v = false.
Proof.
  intros Hs; revert i; induction Hs as [|a l Hs IH Hall]; intros i Hn Hi; simpl in *.
  - destruct i; discriminate.
  - destruct (ltb key a) eqn:Ha; [lia|]. destruct i as [|i]; simpl in Hn; [now inversion Hn; subst|].
    apply (IH i); [exact Hn|lia].
Qed.

Definition le_spec key vs := count_le key (tl vs).

Theorem search_le_spec key vs : asc ltb vs -> search_le ltb key vs = Ok (le_spec key vs).
Proof.
  intros Ha. pose proof (asc_sorted vs Ha) as Hs. unfold search_le. rewrite (search_ge_spec key vs Ha). cbn [bind].
  unfold ge_spec, le_spec.
  destruct vs as [|s0 rest]; [reflexivity|].
  pose proof (count_lt_le key (s0 :: rest)) as Hc. cbn [length tl] in *.
  set (c := count_lt key (s0 :: rest)) in *.
  set (idx := Nat.min c (S (length rest) - 1)).
  assert (Hidx : idx < S (length rest)) by (subst idx; lia).
  destruct (idx =? S (length rest)) eqn:E; [apply Nat.eqb_eq in E; lia|].
  destruct (nth_error (s0 :: rest) idx) as [v|] eqn:Hn.
  2:{ apply nth_error_None in Hn. cbn [length] in Hn. lia. }
  (* relate to count_le on the tail *)
  assert (Htl : SS rest) by (inversion Hs; assumption).
  destruct (ltb key v) eqn:Hkv.
  - (* key < v: every element from idx on is above key *)
    f_equal. destruct idx as [|i] eqn:Ei.
    + simpl in Hn. inversion Hn; subst v. simpl.
      (* key < s0 < everything in rest, so count_le key rest = 0 *)
      destruct rest as [|r1 rest']; [reflexivity|]. simpl.
      assert (ltb s0 r1 = true) by (destruct Ha; assumption).
      rewrite (ltb_trans _ _ _ Hkv H). reflexivity.
    + simpl in Hn. replace (0 <? S i) with true by reflexivity. replace (S i - 1) with i by lia.
      (* elements of rest before i are below key (they are < key since S i <= c) *)
      assert (Hci : S i <= c) by (subst idx; lia).
      assert (Hle1 : count_le key rest <= i).
      { destruct (Nat.le_gt_cases (count_le key rest) i) as [X|X]; [exact X|].
        pose proof (count_le_below key rest i v Htl Hn X). congruence. }
      assert (Hle2 : i <= count_le key rest).
      { (* count_lt key rest >= i, and count_lt <= count_le *)
        pose proof (count_lt_le_count_le key rest).
        assert (i <= count_lt key rest).
        { subst c. simpl in Hci. destruct (ltb s0 key); lia. }
        lia. }
      lia.
  - (* not key < v: v is the last element not above key *)
    f_equal. destruct idx as [|i] eqn:Ei.
    + (* idx = 0: then c = 0 or length rest = 0 *)
      simpl in Hn. inversion Hn; subst v.
      destruct rest as [|r1 rest']; [reflexivity|].
      assert (Hc0 : c = 0) by (subst idx; cbn [length] in *; lia).
      subst c. simpl in Hc0. destruct (ltb s0 key) eqn:Es; [discriminate|].
      (* s0 equivalent to key, r1 > s0 so key < r1 *)
      assert (ltb s0 r1 = true) by (destruct Ha; assumption).
      simpl. rewrite (le_lt_trans key s0 r1 Es H). reflexivity.
    + simpl in Hn.
      assert (Hge : S i <= count_le key rest).
      { destruct (Nat.le_gt_cases (S i) (count_le key rest)) as [X|X]; [exact X|].
        assert (count_le key rest <= i) by lia.
        pose proof (count_le_above key rest i v Htl Hn H). congruence. }
      assert (Hle : count_le key rest <= S i).
      { destruct (Nat.le_gt_cases (count_le key rest) (S i)) as [X|X]; [exact X|]. exfalso.
        (* element S i of rest exists and is not above key; but idx = min c (len rest) *)
        destruct (nth_error rest (S i)) as [w|] eqn:Hw.
        2:{ apply nth_error_None in Hw. pose proof (count_le_le key rest). lia. }
        pose proof (count_le_below key rest (S i) w Htl Hw X) as Hkw.
        (* so S (S i) <= length rest, hence idx = c = S i; element at c is not below key: v. w > v *)
        assert (Hlen : S i < length rest) by (apply nth_error_Some; congruence).
        assert (Hc' : c = S i) by (subst idx; lia).
        assert (Hab : ltb v key = false).
        { apply (sorted_above key (s0 :: rest) (S i) v Hs); [exact Hn|fold c; lia]. }
        assert (Hvw : ltb v w = true) by (eapply (sorted_nth_lt rest i (S i)); eauto).
        (* v not < key, key not < w => v not < w *)
        rewrite (ltb_negtrans v key w Hab Hkw) in Hvw. discriminate. }
      lia.
Qed.

(* ---- client-facing forms: the list splits at the returned index ---- *)
Lemma nth_error_split' {A} (l : list A) n a : nth_error l n = Some a -> l = firstn n l ++ a :: skipn (S n) l /\ length (firstn n l) = n.
Proof.
  revert n; induction l as [|x l IH]; intros n H; destruct n; simpl in *; try discriminate.
  - inversion H; subst; auto.
  - destruct (IH n H) as [E L]. split; [f_equal; exact E|f_equal; exact L].
Qed.

Lemma count_lt_forall key vs : SS vs -> Forall (fun v => ltb v key = true) (firstn (count_lt key vs) vs).
Proof.
  intros Hs. apply Forall_forall. intros x Hx. apply In_nth_error in Hx. destruct Hx as [i Hi].
  assert (i < count_lt key vs).
  { assert (i < length (firstn (count_lt key vs) vs)) by (apply nth_error_Some; congruence).
    rewrite firstn_length in H. lia. }
  eapply sorted_below; eauto. rewrite nth_error_firstn in Hi by exact H. exact Hi.
Qed.

Theorem search_ge_split {A} key (es : list (K * A)) : asc ltb (map fst es) -> es <> [] ->
  exists index pre k v post,
    search_ge ltb key (map fst es) = Ok index /\ es = pre ++ (k, v) :: post /\ length pre = index /\
    Forall (fun e => ltb (fst e) key = true) pre /\
    (ltb k key = false \/ (post = [] /\ ltb k key = true)).
Proof.
  intros Ha Hne. pose proof (asc_sorted _ Ha) as Hs. rewrite (search_ge_spec key _ Ha). unfold ge_spec.
  set (vs := map fst es) in *. set (c := count_lt key vs).
  assert (Hlen : length vs = length es) by (subst vs; apply map_length).
  assert (Hpos : 0 < length es) by (destruct es; [congruence|simpl; lia]).
  set (idx := Nat.min c (length vs - 1)).
  assert (Hidx : idx < length es) by (subst idx; lia).
  destruct (nth_error es idx) as [[k v]|] eqn:Hn; [|apply nth_error_None in Hn; lia].
  destruct (nth_error_split' es idx (k, v) Hn) as [Hsplit Hl].
  exists idx, (firstn idx es), k, v, (skipn (S idx) es). repeat split; auto.
  - (* all before idx are below key *)
    apply Forall_forall. intros e He. apply In_nth_error in He. destruct He as [i Hi].
    assert (Hi' : i < idx). { assert (i < length (firstn idx es)) by (apply nth_error_Some; congruence). lia. }
    rewrite nth_error_firstn in Hi by exact Hi'.
    apply (sorted_below key vs i (fst e) Hs); [subst vs; rewrite nth_error_map', Hi; reflexivity|subst idx; fold c; lia].
  - assert (Hnv : nth_error vs idx = Some k) by (subst vs; rewrite nth_error_map', Hn; reflexivity).
    destruct (Nat.le_gt_cases c (length vs - 1)) as [Hc|Hc].
    + left. apply (sorted_above key vs idx k Hs Hnv). subst idx. fold c. lia.
    + right. split.
      * assert (S idx = length es) by (subst idx; lia). rewrite H. apply skipn_all.
      * apply (sorted_below key vs idx k Hs Hnv). subst idx. fold c. lia.
Qed.

Theorem search_le_split {A} key (cs : list (K * A)) : asc ltb (map fst cs) -> cs <> [] ->
  exists index pre s c post,
    search_le ltb key (map fst cs) = Ok index /\ cs = pre ++ (s, c) :: post /\ length pre = index /\
    Forall (fun e => ltb (fst e) key = true) pre /\
    Forall (fun e => ltb key (fst e) = true) post /\
    (0 < index -> ltb key s = false).
Proof.
  intros Ha Hne. pose proof (asc_sorted _ Ha) as Hs. rewrite (search_le_spec key _ Ha). unfold le_spec.
  destruct cs as [|[s0 c0] rest]; [congruence|]. cbn [map fst tl].
  set (vs := map fst rest). remember (count_le key vs) as n eqn:Hdef.
  assert (Hn : n <= length rest) by (subst n vs; rewrite <- (map_length fst rest); apply count_le_le).
  assert (Htl : SS vs) by (inversion Hs; assumption).
  destruct (nth_error ((s0, c0) :: rest) n) as [[s c]|] eqn:E; [|apply nth_error_None in E; cbn [length] in E; lia].
  destruct (nth_error_split' _ n _ E) as [Hsplit Hl].
  exists n, (firstn n ((s0, c0) :: rest)), s, c, (skipn (S n) ((s0, c0) :: rest)). repeat split; auto.
  - (* elements before n: index i < n. element 0 is s0, which is < s <= key when n > 0 *)
    apply Forall_forall. intros e He. apply In_nth_error in He. destruct He as [i Hi].
    assert (Hi' : i < n). { assert (i < length (firstn n ((s0, c0) :: rest))) by (apply nth_error_Some; congruence). lia. }
    rewrite nth_error_firstn in Hi by exact Hi'.
    (* s is at position n >= 1 of the whole list: s = rest[n-1], not above key; e is before it *)
    destruct n as [|n']; [lia|]. simpl in E.
    assert (Hsk : ltb key s = false).
    { apply (count_le_below key vs n' s Htl); [subst vs; rewrite nth_error_map', E; reflexivity|lia]. }
    assert (Hes : ltb (fst e) s = true).
    { apply (sorted_nth_lt (s0 :: vs) i (S n') (fst e) s Hs); [|simpl; subst vs; rewrite nth_error_map', E; reflexivity|lia].
      change (s0 :: vs) with (map fst ((s0, c0) :: rest)). rewrite nth_error_map, Hi. reflexivity. }
    eapply lt_le_trans; eauto.
  - apply Forall_forall. intros e He. apply In_nth_error in He. destruct He as [i Hi].
    rewrite nth_error_skipn in Hi. simpl in Hi.
    apply (count_le_above key vs (n + i) (fst e) Htl); [subst vs; rewrite nth_error_map', Hi; reflexivity|lia].
  - intros Hpos. destruct n as [|n']; [lia|]. simpl in E.
    apply (count_le_below key vs n' s Htl); [subst vs; rewrite nth_error_map', E; reflexivity|lia].
Qed.

End S.

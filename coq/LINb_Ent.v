(* LINb_Ent.v — what the blocks of Delete do to the contents [entries (erase_ids t)] of the tree:
   one-hole contexts split the contents into (left of the hole) ++ (the hole) ++ (right of the hole);
   [rebalance]/[irebalance] and [unwind] (with the root collapse) leave the contents unchanged;
   along the path recorded in a Delete's frames everything left of the hole is below the key and
   everything right of it is above the key. *)
From Coq Require Import List Bool Lia PeanoNat Permutation.
From GB Require Import Model Inv ListLemmas SearchProof SearchScanProof TreeLemmas UpsertProof DeleteProof
  Conc GI LockInv LockProof CInv CIDef CInv3
  Frame UpdLemmas FrameProof EraseLemmas EraseOps SoloBase SoloDelete GIa2_Seq GIa2_Proof Spec SpecLaws.
Import ListNotations.

Section E.
Variables (K V : Type) (ltb : K -> K -> bool).
Hypothesis HS : SWO ltb.
Notation itree := (itree K V).
Notation tree := (tree K V).
Notation out := (out K V).

Notation EN := (fun cs : list (K * tree) => flat_map (fun c : K * tree => entries (snd c)) cs).

(* ------------------------------------------------------------------------------------------------ *)
(* contents of an identified tree                                                                     *)
(* ------------------------------------------------------------------------------------------------ *)
Definition ient (t : itree) : list (K * V) := entries (erase_ids t).
Definition ents (cs : list (K * itree)) : list (K * V) := flat_map (fun c => ient (snd c)) cs.

Lemma EN_erase_cs (cs : list (K * itree)) : EN (erase_cs cs) = ents cs.
Proof. induction cs as [|[s c] cs IH]; [reflexivity|]. simpl. unfold ents in IH. rewrite IH. reflexivity. Qed.

Lemma ient_node i cs : ient (INode i cs) = ents cs.
Proof. unfold ient. rewrite erase_node. cbn [entries]. apply EN_erase_cs. Qed.

Lemma ient_leaf i nx es : ient (ILeaf i nx es) = es.
Proof. reflexivity. Qed.

Lemma ents_app a b : ents (a ++ b) = ents a ++ ents b.
Proof. apply flat_map_app. Qed.

Lemma ents_cons s c r : ents ((s, c) :: r) = ient c ++ ents r.
Proof. reflexivity. Qed.

Lemma ient_plug1 cf (x : itree) : ient (plug1 cf x) = ents (cpre cf) ++ ient x ++ ents (cpost cf).
Proof. unfold plug1. rewrite ient_node, ents_app, ents_cons. reflexivity. Qed.

(* the contents left and right of the hole of a context (innermost frame first) *)
Fixpoint cleft (C : list (cframe K V)) : list (K * V) :=
  match C with [] => [] | cf :: C' => cleft C' ++ ents (cpre cf) end.
Fixpoint cright (C : list (cframe K V)) : list (K * V) :=
  match C with [] => [] | cf :: C' => ents (cpost cf) ++ cright C' end.

(* the context lemma: the contents of [plug C sub] depend on [sub] only through its contents *)
Lemma ient_plug C : forall sub : itree, ient (plug C sub) = cleft C ++ ient sub ++ cright C.
Proof.
  induction C as [|cf C IH]; intros sub; simpl.
  - rewrite app_nil_r. reflexivity.
  - rewrite IH, ient_plug1. rewrite <- !app_assoc. reflexivity.
Qed.

Lemma ient_plug_eq C (a b : itree) : ient a = ient b -> ient (plug C a) = ient (plug C b).
Proof. intros H. rewrite !ient_plug, H. reflexivity. Qed.

(* ------------------------------------------------------------------------------------------------ *)
(* the sequential node operations keep the concatenated contents                                     *)
(* ------------------------------------------------------------------------------------------------ *)
Lemma adoptR_ent (l r l' r' : tree) :
  adopt_from_right l r = Ok (l', r') -> entries l' ++ entries r' = entries l ++ entries r.
Proof.
  destruct l as [le|lc], r as [[|x re]|[|x rc]]; simpl; intros H; inversion H; subst; clear H; simpl.
  - rewrite <- app_assoc. reflexivity.
  - rewrite flat_map_app. simpl. rewrite app_nil_r, <- app_assoc. reflexivity.
Qed.

Lemma adoptL_ent (l r l' r' : tree) :
  adopt_from_left l r = Ok (l', r') -> entries l' ++ entries r' = entries l ++ entries r.
Proof.
  destruct l as [le|lc], r as [re|rc]; simpl; intros H; try discriminate H.
  - destruct (rev le) as [|x le'] eqn:E; [discriminate H|]. inversion H; subst; clear H.
    apply DeleteProof.rev_cons_inv in E. subst le. simpl. rewrite <- app_assoc. reflexivity.
  - destruct (rev lc) as [|x lc'] eqn:E; [discriminate H|]. inversion H; subst; clear H.
    apply DeleteProof.rev_cons_inv in E. subst lc. simpl. rewrite flat_map_app. simpl.
    rewrite app_nil_r, <- app_assoc. reflexivity.
Qed.

Lemma absorb_ent (l r t : tree) : absorb_right l r = Ok t -> entries t = entries l ++ entries r.
Proof.
  destruct l as [le|lc], r as [re|rc]; simpl; intros H; inversion H; subst; clear H; simpl; [reflexivity|].
  apply flat_map_app.
Qed.

(* rebalancing: borrowing moves an entry between adjacent siblings, merging concatenates them *)
Lemma rebalance_ent order (H4 : 4 <= order) mn index (cs cs' : list (K * tree)) sm :
  rebalance mn index cs = Ok (cs', sm) -> EN cs' = EN cs.
Proof.
  intros H.
  destruct (rebalance_inv K V order H4 mn index cs _ H) as
    [(pre & s & c & sr & r & post & c' & r' & rs & -> & -> & Hr & Ea & Es & E)|
     [(pre & sl & l & s & c & post & l' & c' & sm' & -> & -> & Hl & Ea & Es & E)|
      [(pre & sl & l & s & c & post & t & -> & -> & Hl & Ea & E)|
       (pre & s & c & sr & r & post & t & -> & -> & Hr & Ea & E)]]]; inversion E; subst cs' sm; clear E;
    rewrite !flat_map_app; cbn [flat_map snd]; f_equal; rewrite ?app_assoc; f_equal.
  - apply (adoptR_ent _ _ _ _ Ea).
  - apply (adoptL_ent _ _ _ _ Ea).
  - apply (absorb_ent _ _ _ Ea).
  - apply (absorb_ent _ _ _ Ea).
Qed.

(* ------------------------------------------------------------------------------------------------ *)
(* the path of a Delete: left of the hole below the key, right of it above                            *)
(* ------------------------------------------------------------------------------------------------ *)
Fixpoint cpath (k : K) (C : list (cframe K V)) : Prop :=
  match C with
  | [] => True
  | cf :: C' =>
    search_le ltb k (map fst (cpre cf) ++ csep cf :: map fst (cpost cf)) = Ok (length (cpre cf)) /\ cpath k C'
  end.

Lemma ordered_plug1_inv cf (x : itree) : ordered ltb (erase_ids (plug1 cf x)) -> ordered ltb (erase_ids x).
Proof.
  rewrite SoloDelete.erase_plug1. cbn [ordered]. intros (_ & _ & H).
  apply (SearchScanProof.all_kids_elt K V) in H. exact H.
Qed.

Lemma ordered_plug_inv C : forall x : itree, ordered ltb (erase_ids (plug C x)) -> ordered ltb (erase_ids x).
Proof.
  induction C as [|cf C IH]; intros x H; simpl in H; [exact H|].
  apply IH in H. apply ordered_plug1_inv in H. exact H.
Qed.

Lemma app_cons_len_inj {A} (a a' : list A) x x' b b' :
  a ++ x :: b = a' ++ x' :: b' -> length a = length a' -> a = a' /\ x = x' /\ b = b'.
Proof.
  revert a'. induction a as [|y a IH]; intros [|y' a'] H Hl; simpl in *; try discriminate.
  - inversion H; auto.
  - inversion H; subst. destruct (IH a' H2) as (-> & -> & ->); [lia|]. auto.
Qed.

Lemma path_sides1 k cf (x : itree) :
  ordered ltb (erase_ids (plug1 cf x)) ->
  search_le ltb k (map fst (cpre cf) ++ csep cf :: map fst (cpost cf)) = Ok (length (cpre cf)) ->
  Forall (fun e => ltb (fst e) k = true) (ents (cpre cf)) /\
  Forall (fun e => ltb k (fst e) = true) (ents (cpost cf)).
Proof.
  rewrite SoloDelete.erase_plug1. intros Ho Hs.
  destruct (descend K V ltb HS k _ Ho) as (index & pre & s & c & post & Hsl & Ecs & Hl & Hpre & Hpost & _).
  { destruct (erase_cs (cpre cf)); discriminate. }
  rewrite map_app in Hsl. cbn [map fst] in Hsl. rewrite !erase_cs_fst in Hsl. rewrite Hs in Hsl.
  inversion Hsl; subst index; clear Hsl.
  apply app_cons_len_inj in Ecs; [|rewrite erase_cs_length; auto].
  destruct Ecs as (E1 & _ & E2). subst pre post.
  split.
  - rewrite <- EN_erase_cs. apply (EN_keys K V (fun x => ltb x k = true)). exact Hpre.
  - rewrite <- EN_erase_cs. apply (EN_keys K V (fun x => ltb k x = true)). exact Hpost.
Qed.

Lemma path_sides k C : forall x : itree,
  ordered ltb (erase_ids (plug C x)) -> cpath k C ->
  Forall (fun e => ltb (fst e) k = true) (cleft C) /\
  Forall (fun e => ltb k (fst e) = true) (cright C).
Proof.
  induction C as [|cf C IH]; intros x Ho Hp; simpl.
  - split; constructor.
  - destruct Hp as [Hs Hp]. simpl in Ho.
    destruct (IH _ Ho Hp) as [IL IR].
    apply ordered_plug_inv in Ho.
    destruct (path_sides1 k cf x Ho Hs) as [L R].
    split; apply Forall_app; auto.
Qed.

(* the frames of a Delete against the context they describe *)
Lemma frames_idx_cpath fr k : forall stk C (sub : itree),
  fmatch K V stk C -> wfc C sub fr -> frames_idx_b ltb k (plug C sub) stk = true -> cpath k C.
Proof.
  induction stk as [|f stk IH]; intros [|cf C] sub Hm Hw H; simpl in Hm; try tauto; try exact I.
  destruct Hm as (Hfp & Hfi & Hm).
  pose proof (proj2 (wfc_push _ _ cf C sub fr) Hw) as Hw1.
  cbn [frames_idx_b] in H. apply andb_true_iff in H. destruct H as [H1 H2].
  change (plug (cf :: C) sub) with (plug C (plug1 cf sub)) in *.
  assert (Hfind : Conc.find (Conc.fp f) (plug C (plug1 cf sub)) = Some (plug1 cf sub)).
  { rewrite Hfp. apply (find_plug_self K V C (plug1 cf sub) fr Hw1). }
  rewrite Hfind in H1. unfold plug1 in H1.
  cbn [cpath]. split.
  - rewrite map_app in H1. cbn [map fst] in H1.
    destruct (search_le ltb k (map fst (cpre cf) ++ csep cf :: map fst (cpost cf))) as [i|]; [|discriminate H1].
    cbn [res_nat_eqb] in H1. apply Nat.eqb_eq in H1. congruence.
  - apply (IH C (plug1 cf sub) Hm Hw1 H2).
Qed.

(* ------------------------------------------------------------------------------------------------ *)
(* erase against the decomposition, and against any filter                                            *)
(* ------------------------------------------------------------------------------------------------ *)
Lemma erase_mid k (pre es post : list (K * V)) :
  Forall (fun e => ltb (fst e) k = true) pre -> Forall (fun e => ltb k (fst e) = true) post ->
  erase ltb k (pre ++ es ++ post) = pre ++ erase ltb k es ++ post.
Proof.
  intros Hpre Hpost. rewrite Forall_forall in Hpre, Hpost.
  rewrite (DeleteProof.erase_app_lt K V ltb HS) by exact Hpre.
  rewrite (DeleteProof.erase_app_gt K V ltb) by exact Hpost. reflexivity.
Qed.

Lemma erase_none k (l : list (K * V)) :
  asc ltb (map fst l) -> (forall e, In e l -> eqvb ltb k (fst e) = false) -> erase ltb k l = l.
Proof.
  induction l as [|[k' v] l IH]; intros Ha Hn; [reflexivity|]. simpl.
  destruct (ltb k k') eqn:E1; [reflexivity|]. destruct (ltb k' k) eqn:E2.
  - f_equal. apply IH; [eapply asc_cons_inv; exact Ha|]. intros e He. apply Hn. right; exact He.
  - specialize (Hn (k', v) (or_introl eq_refl)). unfold eqvb in Hn. cbn [fst] in Hn. rewrite E1, E2 in Hn.
    discriminate Hn.
Qed.

(* erasing a key commutes with ANY filter on a strictly ascending list *)
Lemma erase_filter k (P : K * V -> bool) (l : list (K * V)) :
  asc ltb (map fst l) -> erase ltb k (filter P l) = filter P (erase ltb k l).
Proof.
  induction l as [|[k' v] l IH]; intros Ha; [reflexivity|].
  pose proof (asc_cons_inv K ltb _ _ Ha) as Ha'.
  pose proof (asc_forall K ltb HS _ _ Ha) as Hall. rewrite Forall_forall in Hall.
  cbn [filter erase].
  destruct (ltb k k') eqn:E1.
  - (* k below the head: nothing to erase on either side *)
    cbn [filter]. destruct (P (k', v)).
    + cbn [erase]. rewrite E1. reflexivity.
    + apply erase_none.
      * clear -Ha' HS. induction l as [|[a b] l IHl]; [exact I|]. cbn [filter].
        pose proof (asc_cons_inv K ltb _ _ Ha') as Hl.
        destruct (P (a, b)); [|apply IHl; exact Hl].
        cbn [map fst]. apply (DeleteProof.asc_cons_iff K ltb HS). split; [|apply IHl; exact Hl].
        intros y Hy. pose proof (asc_forall K ltb HS _ _ Ha') as Hf. rewrite Forall_forall in Hf. apply Hf.
        apply in_map_iff in Hy. destruct Hy as (e & <- & He). apply filter_In in He. apply in_map. tauto.
      * intros e He. apply filter_In in He. destruct He as [He _].
        assert (Hk : ltb k' (fst e) = true) by (apply Hall; apply in_map; exact He).
        unfold eqvb. rewrite (ltb_trans K ltb HS _ _ _ E1 Hk). reflexivity.
  - destruct (ltb k' k) eqn:E2.
    + cbn [filter]. destruct (P (k', v)); [|apply IH; exact Ha'].
      cbn [erase]. rewrite E1, E2. f_equal. apply IH; exact Ha'.
    + (* the head is the entry of k *)
      destruct (P (k', v)); [cbn [erase]; rewrite E1, E2; reflexivity|].
      apply erase_none.
      * clear -Ha' HS. induction l as [|[a b] l IHl]; [exact I|]. cbn [filter].
        pose proof (asc_cons_inv K ltb _ _ Ha') as Hl.
        destruct (P (a, b)); [|apply IHl; exact Hl].
        cbn [map fst]. apply (DeleteProof.asc_cons_iff K ltb HS). split; [|apply IHl; exact Hl].
        intros y Hy. pose proof (asc_forall K ltb HS _ _ Ha') as Hf. rewrite Forall_forall in Hf. apply Hf.
        apply in_map_iff in Hy. destruct Hy as (e & <- & He). apply filter_In in He. apply in_map. tauto.
      * intros e He. apply filter_In in He. destruct He as [He _].
        assert (Hk : ltb k' (fst e) = true) by (apply Hall; apply in_map; exact He).
        unfold eqvb. rewrite (le_lt_trans K ltb HS k k' (fst e) E2 Hk). reflexivity.
Qed.

(* ------------------------------------------------------------------------------------------------ *)
(* irebalance and unwind                                                                             *)
(* ------------------------------------------------------------------------------------------------ *)
Variable order : nat.
Hypothesis H4 : 4 <= order.
Notation m := (Nat.div2 order).

Lemma irebalance_ent fr C cf (sub : itree) f t' small' :
  Conc.fp f = cid cf -> fidx f = length (cpre cf) -> wfc (cf :: C) sub fr ->
  irebalance order f (plug (cf :: C) sub) = Ok (t', small') ->
  exists cs', t' = plug C (INode (cid cf) cs') /\ wfc C (INode (cid cf) cs') fr /\
     ient (INode (cid cf) cs') = ient (plug1 cf sub).
Proof.
  intros Hfp Hfi Hw H.
  set (cs := cpre cf ++ (csep cf, sub) :: cpost cf).
  assert (Hw1 : wfc C (INode (cid cf) cs) fr) by (apply wfc_push in Hw; exact Hw).
  change (plug (cf :: C) sub) with (plug C (INode (cid cf) cs)) in *.
  destruct (rebalance_nopanic K V order fr C (cid cf) cs (fidx f) f _ Hw1 Hfp eq_refl H) as [[ecs' sm] Hr].
  destruct (irebalance_sim K V order fr C (cid cf) cs (fidx f) ecs' sm f Hfp eq_refl Hw1 Hr)
    as (cs' & Hir & Hecs & Hw2 & Hlk).
  rewrite Hir in H. inversion H; subst t' small'; clear H.
  exists cs'. split; [reflexivity|]. split; [exact Hw2|].
  change (plug1 cf sub) with (INode (cid cf) cs). rewrite !ient_node, <- !EN_erase_cs, Hecs.
  eapply rebalance_ent; eauto.
Qed.

Lemma unwind_ent fr : forall stk C (sub : itree) small right l fuel tmx o (out : out),
  fmatch K V stk C -> wfc C sub fr ->
  unwind order fuel o stk small right (plug C sub) l fr tmx = Ok out ->
  ient (otr out) = ient (plug C sub).
Proof.
  induction stk as [|f stk IH]; intros [|cf C] sub small right l fuel tmx o out Hm Hw H;
    simpl in Hm; try tauto.
  - (* back in Delete: the root collapse *)
    destruct fuel as [|fuel]; [discriminate H|]. cbn [unwind plug] in H. unfold mk in H.
    inversion H; subst out; clear H. cbn [otr plug].
    destruct (negb small || (1 <? icount sub)) eqn:Ec; [reflexivity|].
    apply orb_false_iff in Ec. destruct Ec as [_ Ec]. apply Nat.ltb_ge in Ec.
    destruct sub as [i nx es|i [|[s c] cs]]; [reflexivity|reflexivity|].
    cbn [icount length] in Ec. destruct cs as [|x cs]; [|simpl in Ec; lia].
    rewrite ient_node, ents_cons. simpl. rewrite app_nil_r. reflexivity.
  - (* one activation of deleteKey *)
    destruct Hm as (Hfp & Hfi & Hm).
    destruct fuel as [|fuel]; [discriminate H|].
    pose proof (proj2 (wfc_push _ _ cf C sub fr) Hw) as Hw1.
    rewrite unwind_cons in H. destruct small; cbn [negb] in H.
    + assert (Hfind : Conc.find (Conc.fp f) (plug C (plug1 cf sub)) = Some (plug1 cf sub)).
      { rewrite Hfp. apply (find_plug_self K V C (plug1 cf sub) fr Hw1). }
      change (plug (cf :: C) sub) with (plug C (plug1 cf sub)) in H. rewrite Hfind in H.
      unfold plug1 in H at 1.
      destruct ((fidx f + 1 <? length (cpre cf ++ (csep cf, sub) :: cpost cf)) &&
                match right with None => true | Some _ => false end).
      * unfold mk in H. inversion H; subst out; clear H. cbn [otr]. reflexivity.
      * destruct (irebalance order f (plug C (plug1 cf sub))) as [[t' small']|] eqn:Er; [|discriminate H].
        cbn [bind] in H.
        destruct (irebalance_ent fr C cf sub f t' small' Hfp Hfi Hw Er) as (cs' & -> & Hw2 & He).
        rewrite (IH C (INode (cid cf) cs') small' None (unlock_frame_kids f right l) fuel tmx o out Hm Hw2 H).
        change (plug (cf :: C) sub) with (plug C (plug1 cf sub)). apply ient_plug_eq. exact He.
    + apply (IH C (plug1 cf sub) false None (unlock_frame_kids f right l) fuel tmx o out Hm Hw1 H).
Qed.

End E.

(* SLo_Lemmas.v — the leftmost path ([leftmost_b], NoGap.v) under the atomic blocks of the concurrent model.
   [lmr W t t'] : every node outside W that is on the path of index-0 children of t is still on that path in t'.
   Per-block lemmas in the style of PCb2_Blocks.v ([bm]); only the root collapse loses a node (the old root). *)
From Coq Require Import List Permutation Lia Bool PeanoNat.
From GB Require Import ListLemmas TreeLemmas Inv Frame LockProof CInv UpdLemmas FrameRel FrameInv FrameBlocks
  PCb2_Bounds PCb2_View PCb2_Blocks NoGap.
Import ListNotations.

Section Lm.
Variables (K V : Type) (ltb : K -> K -> bool).
Notation itree := (itree K V).
Notation out := (out K V).
Notation find := (@Conc.find K V).
Notation leftmost_b := (@leftmost_b K V).
Notation reb_shape := (reb_shape K V).

(* ---------- unfolding ---------- *)
Definition hdlm (x : id) (cs : list (K * itree)) : bool :=
  match cs with (_, c) :: _ => leftmost_b x c | [] => false end.

Lemma lm_leaf x i nx (es : list (K * V)) : leftmost_b x (ILeaf i nx es) = (i =? x).
Proof. simpl. apply orb_false_r. Qed.

Lemma lm_node x i (cs : list (K * itree)) : leftmost_b x (INode i cs) = (i =? x) || hdlm x cs.
Proof. destruct cs as [|[s c] r]; reflexivity. Qed.

Lemma lm_root (t : itree) : leftmost_b (nid t) t = true.
Proof. destruct t as [i nx es|i cs]; [rewrite lm_leaf | rewrite lm_node]; simpl; rewrite Nat.eqb_refl; reflexivity. Qed.

Lemma hdlm_app_l x (a b : list (K * itree)) : hdlm x a = true -> hdlm x (a ++ b) = true.
Proof. destruct a as [|[s c] a]; simpl; [discriminate | auto]. Qed.

Lemma hdlm_app_ne x (a b : list (K * itree)) : a <> [] -> hdlm x (a ++ b) = hdlm x a.
Proof. destruct a as [|[s c] a]; simpl; [congruence | auto]. Qed.

Lemma hdlm_firstn x h (cs : list (K * itree)) : 1 <= h -> hdlm x (firstn h cs) = hdlm x cs.
Proof. intros Hh. destruct h as [|h]; [lia|]. destruct cs as [|[s c] r]; reflexivity. Qed.

Lemma lm_in_ids x (t : itree) : leftmost_b x t = true -> In x (ids t).
Proof.
  induction t as [i nx es|i cs IH] using itree_ind2; intros H.
  - rewrite lm_leaf in H. apply Nat.eqb_eq in H. subst. simpl. auto.
  - rewrite lm_node in H. rewrite ids_node. apply orb_prop in H. destruct H as [H|H].
    + apply Nat.eqb_eq in H. subst. left. reflexivity.
    + right. destruct cs as [|[s c] r]; [discriminate H|]. simpl in H.
      inversion IH as [|? ? H1 H2]; subst. rewrite idsl_cons. apply in_or_app. left. apply H1. exact H.
Qed.

(* ---------- the relation ---------- *)
Definition lmr (W : list id) (t t' : itree) : Prop :=
  forall x, ~ In x W -> leftmost_b x t = true -> leftmost_b x t' = true.

Lemma lmr_refl W t : lmr W t t.
Proof. intros x _ H. exact H. Qed.
Lemma lmr_trans W a b c : lmr W a b -> lmr W b c -> lmr W a c.
Proof. intros H1 H2 x Hx H. auto. Qed.
Lemma lmr_mono W W' a b : incl W W' -> lmr W a b -> lmr W' a b.
Proof. intros Hi H x Hx. apply H. intro X. apply Hx. apply Hi. exact X. Qed.

(* ---------- upd ---------- *)
Lemma upd_lm x (n n' : itree) :
  (forall y, leftmost_b y n = true -> leftmost_b y n' = true) ->
  forall (t t' : itree), find x t = Some n -> upd x (fun _ => Ok n') t = Ok t' ->
  forall y, leftmost_b y t = true -> leftmost_b y t' = true.
Proof.
  intros Hn. induction t as [i nx es|i cs IH] using itree_ind2; intros t' Hf Hu y Hy;
    rewrite find_eq in Hf; rewrite upd_eq in Hu; simpl nid in *.
  - destruct (i =? x) eqn:E; [|discriminate Hf]. inversion Hf; inversion Hu; subst. apply Hn. exact Hy.
  - destruct (i =? x) eqn:E.
    + inversion Hf; inversion Hu; subst. apply Hn. exact Hy.
    + destruct (updl x (fun _ => Ok n') cs) as [cs'|] eqn:Eu; [cbn [bind] in Hu|discriminate Hu].
      inversion Hu; subst t'; clear Hu.
      rewrite lm_node in *. apply orb_prop in Hy. destruct Hy as [Hy|Hy]; [rewrite Hy; reflexivity|].
      apply orb_true_iff. right.
      destruct cs as [|[s c] r]; [discriminate Hy|]. simpl in Hy.
      inversion IH as [|? ? H1 H2]; subst. simpl in H1.
      rewrite updl_cons in Eu. rewrite findl_cons in Hf.
      destruct (upd x (fun _ => Ok n') c) as [c'|] eqn:Ec; [cbn [bind] in Eu|discriminate Eu].
      destruct (updl x (fun _ => Ok n') r) as [r'|] eqn:Er; [cbn [bind] in Eu|discriminate Eu].
      inversion Eu; subst cs'; clear Eu. simpl.
      destruct (Conc.find x c) as [m|] eqn:Efc.
      * inversion Hf; subst m. apply (H1 c' eq_refl eq_refl y Hy).
      * assert (Hni : ~ In x (ids c)).
        { intro X. apply (find_some_iff K V) in X. apply X. exact Efc. }
        rewrite (upd_notin K V x _ c Hni) in Ec. inversion Ec; subst c'. exact Hy.
Qed.

Lemma upd_node_lm W p pi cs cs' (t t' : itree) :
  find p t = Some (INode pi cs) -> upd p (fun _ => Ok (INode pi cs')) t = Ok t' ->
  (forall y, hdlm y cs = true -> hdlm y cs' = true) ->
  lmr W t t'.
Proof.
  intros Hf Hu H y _ Hy. eapply upd_lm; [|exact Hf|exact Hu|exact Hy].
  intros z Hz. rewrite lm_node in *. apply orb_prop in Hz. destruct Hz as [Hz|Hz]; [rewrite Hz; reflexivity|].
  rewrite (H z Hz). apply orb_true_r.
Qed.

(* ---------- leaf writes ---------- *)
Lemma upd_leaf_lm x i nx nx' es es' (t t' : itree) :
  find x t = Some (ILeaf i nx es) -> upd x (fun _ => Ok (ILeaf i nx' es')) t = Ok t' -> lmr [] t t'.
Proof.
  intros Hf Hu y _ Hy. eapply upd_lm; [|exact Hf|exact Hu|exact Hy].
  intros z Hz. rewrite lm_leaf in *. exact Hz.
Qed.

Lemma leaf_root_lm i nx nx' (es es' : list (K * V)) : lmr [] (ILeaf i nx es) (ILeaf i nx' es').
Proof. intros y _ Hy. rewrite lm_leaf in *. exact Hy. Qed.

Lemma ins_descend_lm o n (t : itree) l fr tmx (out : out) :
  ins_descend ltb o n t l fr tmx = Ok out -> lmr [] t (otr out).
Proof.
  intros H. unfold ins_descend, mk in H.
  destruct (find n t) as [[i nx es|pi cs]|] eqn:Hf; [| |discriminate H].
  - crunch H; inversion H; subst; clear H; cbn [otr].
    all: try (eapply upd_leaf_lm; eauto; fail).
    all: apply lmr_refl.
  - crunch H; inversion H; subst; clear H; cbn [otr]. apply lmr_refl.
Qed.

(* ---------- Insert/Update at an internal node ---------- *)
Lemma hdlm_set_same x index sep sep' child (cs : list (K * itree)) :
  nth_error cs index = Some (sep, child) -> hdlm x (set_nth index (sep', child) cs) = hdlm x cs.
Proof.
  intros Hn. destruct (nth_error_split cs index Hn) as [A [B [E L]]]. subst cs index.
  rewrite set_nth_app. destruct A as [|[s c] A]; reflexivity.
Qed.

Lemma ins_nosplit_lm p pi cs index sep sep' child (t t' : itree) :
  find p t = Some (INode pi cs) -> nth_error cs index = Some (sep, child) ->
  upd p (fun _ => Ok (INode pi (set_nth index (sep', child) cs))) t = Ok t' ->
  lmr [] t t'.
Proof.
  intros Hf Hn Hu. eapply upd_node_lm; [exact Hf|exact Hu|].
  intros y Hy. rewrite (hdlm_set_same y index sep sep' child cs Hn). exact Hy.
Qed.

Lemma split_lm order fr (child lft rgt : itree) :
  isplit order fr child = Some (lft, rgt) -> 1 <= Nat.div2 order ->
  forall x, leftmost_b x lft = leftmost_b x child.
Proof.
  unfold isplit. destruct (icount child <? order); [discriminate|].
  destruct child as [i nx es|i cs]; intros H Hh x; inversion H; subst; clear H.
  - rewrite !lm_leaf. reflexivity.
  - rewrite !lm_node, hdlm_firstn by exact Hh. reflexivity.
Qed.

Lemma ins_split_lm order p pi cs index sep sep' rs child lft rgt fr (t t' : itree) :
  find p t = Some (INode pi cs) -> nth_error cs index = Some (sep, child) ->
  isplit order fr child = Some (lft, rgt) -> 1 <= Nat.div2 order ->
  upd p (fun _ => Ok (INode pi (ins_nth (index + 1) (rs, rgt) (set_nth index (sep', lft) cs)))) t = Ok t' ->
  lmr [] t t'.
Proof.
  intros Hf Hn Hs Hh Hu. eapply upd_node_lm; [exact Hf|exact Hu|].
  intros y Hy. destruct (nth_error_split cs index Hn) as [A [B [E L]]]. subst cs index.
  rewrite set_nth_app, ins_nth_app1.
  destruct A as [|[s c] A]; simpl in *; [|exact Hy].
  rewrite (split_lm order fr child lft rgt Hs Hh y). exact Hy.
Qed.

(* ---------- the root ---------- *)
Lemma root_split_lm order fr ls rs lft rgt (t : itree) :
  isplit order fr t = Some (lft, rgt) -> 1 <= Nat.div2 order ->
  lmr [] t (INode (S fr) [(ls, lft); (rs, rgt)]).
Proof.
  intros Hs Hh y _ Hy. rewrite lm_node. simpl. rewrite (split_lm order fr t lft rgt Hs Hh y), Hy. apply orb_true_r.
Qed.

Lemma root_collapse_lm r k (c : itree) rest : lmr [r] (INode r ((k, c) :: rest)) c.
Proof.
  intros y Hy H. rewrite lm_node in H. simpl in H. apply orb_prop in H. destruct H as [H|H]; [|exact H].
  apply Nat.eqb_eq in H. subst. exfalso. apply Hy. left. reflexivity.
Qed.

(* ---------- Delete: the four outcomes of irebalance ---------- *)
Lemma adoptR_lm (child rgt child' rgt' : itree) x :
  iadopt_right child rgt = Ok (child', rgt') -> leftmost_b x child = true -> leftmost_b x child' = true.
Proof.
  unfold iadopt_right. destruct child as [li ln le|li lc]; destruct rgt as [ri rn [|e re]|ri [|e rc]]; intros H; inversion H; subst; clear H.
  - rewrite !lm_leaf. auto.
  - rewrite !lm_node. intros Hy. apply orb_prop in Hy. destruct Hy as [Hy|Hy]; [rewrite Hy; reflexivity|].
    rewrite (hdlm_app_l x lc [e] Hy). apply orb_true_r.
Qed.

Lemma adoptL_lm (lft child lft' child' : itree) x :
  iadopt_left lft child = Ok (lft', child') -> 2 <= icount lft -> leftmost_b x lft = true -> leftmost_b x lft' = true.
Proof.
  unfold iadopt_left. destruct lft as [li ln le|li lc]; destruct child as [ri rn re|ri rc]; try discriminate.
  - destruct (rev le) as [|e le']; intros H; inversion H; subst; clear H. rewrite !lm_leaf. auto.
  - destruct (rev lc) as [|e lc'] eqn:Er; intros H; inversion H; subst; clear H.
    intros Hc. simpl in Hc.
    assert (E : lc = rev lc' ++ [e]).
    { rewrite <- (rev_involutive lc), Er. reflexivity. }
    subst lc. rewrite !lm_node.
    assert (Hne : rev lc' <> []).
    { intro X. rewrite X in Hc. simpl in Hc. lia. }
    rewrite (hdlm_app_ne x (rev lc') [e] Hne). auto.
Qed.

Lemma absorb_lm (l r l' : itree) x :
  iabsorb l r = Ok l' -> leftmost_b x l = true -> leftmost_b x l' = true.
Proof.
  unfold iabsorb. destruct l as [li ln le|li lc]; destruct r as [ri rn re|ri rc]; intros H; inversion H; subst; clear H.
  - rewrite !lm_leaf. auto.
  - rewrite !lm_node. intros Hy. apply orb_prop in Hy. destruct Hy as [Hy|Hy]; [rewrite Hy; reflexivity|].
    rewrite (hdlm_app_l x lc rc Hy). apply orb_true_r.
Qed.

Lemma reb_lm order idx cs cs' x :
  reb_shape order idx cs cs' -> 1 <= Nat.div2 order -> hdlm x cs = true -> hdlm x cs' = true.
Proof.
  intros Hsh Hh. destruct Hsh as [A B k1 child k2 rgt child' rgt' rs Hi Ha Hs
                                 |A B k0 lft k1 child lft' child' sm Hi Hc Ha Hs
                                 |A B k0 lft k1 child lft' Hi Ha
                                 |A B k1 child k2 rgt child' Hi Ha];
    (destruct A as [|[s c] A]; simpl; [|auto]).
  - eapply adoptR_lm; eauto.
  - eapply adoptL_lm; eauto. lia.
  - eapply absorb_lm; eauto.
  - eapply absorb_lm; eauto.
Qed.

Lemma irebalance_lm order f (t t' : itree) small :
  1 <= Nat.div2 order -> irebalance order f t = Ok (t', small) -> lmr [] t t'.
Proof.
  intros Hh H.
  destruct (find (fp f) t) as [[i nx es|pi cs]|] eqn:Hf.
  - unfold irebalance in H. rewrite Hf in H. discriminate H.
  - destruct (irebalance_shape K V order f t t' small pi cs H Hf) as [cs' [Hu Hsh]].
    eapply upd_node_lm; [exact Hf|exact Hu|]. intros y Hy. eapply reb_lm; eauto.
  - unfold irebalance in H. rewrite Hf in H. discriminate H.
Qed.

(* ---------- the return through the deleteKey activations ---------- *)
Lemma unwind_lm order fuel : 1 <= Nat.div2 order -> forall o stk small right (t : itree) l fr tmx (out : out),
  unwind order fuel o stk small right t l fr tmx = Ok out -> lmr [nid t] t (otr out).
Proof.
  intros Hord.
  induction fuel as [|fuel IH]; intros o stk small right t l fr tmx out H; simpl in H; [discriminate|].
  destruct stk as [|f rest].
  - unfold mk in H. inversion H; subst; clear H. cbn [otr].
    destruct (negb small || (1 <? icount t)) eqn:E; [apply lmr_refl|].
    destruct t as [i nx es | i [|[k c] rest]]; try apply lmr_refl.
    apply root_collapse_lm.
  - destruct (negb small) eqn:Es.
    + eapply IH; eauto.
    + destruct (find (fp f) t) as [[i nx es|pi cs]|] eqn:Hf; try discriminate H.
      destruct ((fidx f + 1 <? length cs) && match right with None => true | Some _ => false end) eqn:Ec.
      * unfold mk in H. inversion H; subst; clear H. cbn [otr]. apply lmr_refl.
      * destruct (irebalance order f t) as [[t' small']|] eqn:Er; [cbn [bind] in H|discriminate H].
        eapply lmr_trans.
        -- eapply lmr_mono; [|eapply irebalance_lm; eauto]. intros z [].
        -- rewrite <- (irebalance_nid K V order f t t' small' Er). eapply IH; eauto.
Qed.

(* ---------- the lower-bound half of [in_range_bm] ---------- *)
Lemma in_lo_bm W k x (t t' : itree) :
  bm ltb W t t' -> ~ In x W -> in_lo ltb k x t = true -> in_lo ltb k x t' = true.
Proof.
  intros H Hx. unfold in_lo. destruct (bounds x t) as [[lo hi]|] eqn:E; [|discriminate].
  destruct (H x (lo, hi) Hx E) as [[lo' hi'] [A [B1 B2]]]. rewrite A. simpl in *. apply B1.
Qed.

Lemma in_lo_in k x (t : itree) : in_lo ltb k x t = true -> In x (ids t).
Proof. unfold in_lo. destruct (bounds x t) as [b|] eqn:E; [|discriminate]. intros _. eapply bounds_some_in; eauto. Qed.

End Lm.

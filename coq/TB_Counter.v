(* TB_Counter.v — corollary of the whole-history statements (TB_Proof.v): concurrent Updates of a counter.
   If the only operations of the client programs that write a key equivalent to k are Updates with one and the same
   callback [inc] (any other operation on any other key, and any Search / Scan, is allowed), then in every
   execution that runs all threads to completion the value bound to k in the final tree is [inc] folded N times
   from "absent", where N is the number of those Update calls in the programs: each of the N Updates took effect
   exactly once, atomically, in some order.  See the summary at the end of the file. *)
From Coq Require Import List Bool PeanoNat Lia.
From GB Require Import Model Inv Spec SpecLaws LinDef SoloBase LINc_Blocks LINc_Proof Final TB_Trace TB_Link TB_Proof.
Import ListNotations.

(* ------------------------------------------------------------------------------------------------ *)
(* the specification side: a run in which the only writers of k are  Update _ inc                    *)
(* ------------------------------------------------------------------------------------------------ *)
Section SpecSide.
Variables (K V : Type) (ltb : K -> K -> bool).
Hypothesis HS : SWO ltb.
Variable k : K.
Variable inc : option V -> V.

(* the specification operation writes a key equivalent to k *)
Definition wop (po : op K V) : bool :=
  match po with
  | OInsert k' _ | OUpdate k' _ | ODelete k' => eqvb ltb k k'
  | OSearch _ => false
  end.

Definition cw (l : list (op K V)) : nat := length (filter wop l).

Lemma cw_app l1 l2 : cw (l1 ++ l2) = cw l1 + cw l2.
Proof. unfold cw. rewrite filter_app, app_length. reflexivity. Qed.

Lemma eqvb_eqv a b : eqvb ltb a b = true <-> eqv ltb a b.
Proof.
  unfold eqvb, eqv. destruct (ltb a b), (ltb b a); simpl; split; intros H; try discriminate H;
    try (destruct H; discriminate); auto.
Qed.

Definition bump (a : option V) : option V := Some (inc a).

Lemma step_spec_lookup (m : list (K * V)) po :
  asc ltb (map fst m) -> (wop po = true -> exists k', po = OUpdate k' inc) ->
  lookup ltb k (fst (step_spec ltb m po)) = if wop po then bump (lookup ltb k m) else lookup ltb k m.
Proof.
  intros Ha Hw. destruct (wop po) eqn:E.
  - destruct (Hw eq_refl) as (k' & ->). cbn [wop] in E. apply eqvb_eqv in E. cbn [step_spec fst].
    rewrite (lookup_eqv K V ltb HS k k' _ E). rewrite (lookup_put_same K V ltb HS k' inc m Ha).
    rewrite <- (lookup_eqv K V ltb HS k k' _ E). reflexivity.
  - assert (N : forall k', eqvb ltb k k' = false -> ~ eqv ltb k k').
    { intros k' F X. apply eqvb_eqv in X. congruence. }
    destruct po as [k' v|k' f|k'|k']; cbn [wop] in E; cbn [step_spec fst].
    + apply (lookup_put_other K V ltb HS); [exact Ha|exact (N k' E)].
    + apply (lookup_put_other K V ltb HS); [exact Ha|exact (N k' E)].
    + apply (lookup_erase_other K V ltb HS); [exact Ha|exact (N k' E)].
    + reflexivity.
Qed.

Lemma iter_bump_comm n a : Nat.iter n bump (bump a) = bump (Nat.iter n bump a).
Proof. induction n as [|n IH]; simpl; [reflexivity|]. rewrite IH. reflexivity. Qed.

Lemma run_spec_lookup : forall ops (m : list (K * V)),
  asc ltb (map fst m) -> (forall po, In po ops -> wop po = true -> exists k', po = OUpdate k' inc) ->
  lookup ltb k (fst (run_spec ltb m ops)) = Nat.iter (cw ops) bump (lookup ltb k m).
Proof.
  induction ops as [|po ops IH]; intros m Ha Hw; [reflexivity|].
  cbn [run_spec]. pose proof (step_spec_lookup m po Ha (Hw po (or_introl eq_refl))) as H1.
  pose proof (step_spec_asc K V ltb HS po m Ha) as Ha'.
  destruct (step_spec ltb m po) as [m' x]. cbn [fst] in H1, Ha'.
  specialize (IH m' Ha' (fun q Hq => Hw q (or_intror Hq))).
  destruct (run_spec ltb m' ops) as [m'' xs]. cbn [fst] in *. rewrite IH, H1.
  unfold cw. cbn [filter]. destruct (wop po); cbn [length]; [|reflexivity].
  cbn [Nat.iter nat_rect]. apply iter_bump_comm.
Qed.

End SpecSide.

Arguments wop {K V} ltb k po.
Arguments cw {K V} ltb k l.

(* ------------------------------------------------------------------------------------------------ *)
(* counting the linearization points thread by thread                                                *)
(* ------------------------------------------------------------------------------------------------ *)
Section Count.
Variables (K V : Type).
Variable w : op K V -> bool.
Notation irec := (irec K V).
Let cnt (l : list (op K V)) : nat := length (filter w l).

Lemma sum_zero (ids : list tid) : list_sum (map (fun _ => 0) ids) = 0.
Proof. induction ids; simpl; auto. Qed.

Lemma sum_add (f g : tid -> nat) ids :
  list_sum (map (fun t => f t + g t) ids) = list_sum (map f ids) + list_sum (map g ids).
Proof. induction ids as [|a ids IH]; simpl; [reflexivity|]. rewrite IH. lia. Qed.

Lemma sum_indicator (t0 : tid) (c : nat) ids : NoDup ids -> In t0 ids ->
  list_sum (map (fun t => if t0 =? t then c else 0) ids) = c.
Proof.
  induction ids as [|a ids IH]; intros Hnd Hin; [destruct Hin|]. inversion Hnd as [|? ? Hni Hnd']; subst.
  simpl. destruct Hin as [->|Hin].
  - rewrite Nat.eqb_refl.
    assert (Z : list_sum (map (fun t => if t0 =? t then c else 0) ids) = 0).
    { clear IH Hnd Hnd'. induction ids as [|b ids IH]; [reflexivity|]. simpl.
      destruct (t0 =? b) eqn:E; [apply Nat.eqb_eq in E; subst; exfalso; apply Hni; left; reflexivity|].
      apply IH. intros X. apply Hni. right. exact X. }
    lia.
  - destruct (t0 =? a) eqn:E; [apply Nat.eqb_eq in E; subst; contradiction|]. rewrite (IH Hnd' Hin). reflexivity.
Qed.

Lemma cnt_app l1 l2 : cnt (l1 ++ l2) = cnt l1 + cnt l2.
Proof. unfold cnt. rewrite filter_app, app_length. reflexivity. Qed.

Lemma count_by_thread (ids : list tid) : NoDup ids -> forall T : list irec,
  (forall r, In r T -> In (r_tid r) ids) ->
  cnt (map fst (lps_of T)) = list_sum (map (fun t => cnt (lps_thread t T)) ids).
Proof.
  intros Hnd. induction T as [|r T IH]; intros Hin.
  - simpl. rewrite sum_zero. reflexivity.
  - change (lps_of (r :: T)) with ((match r_lp r with Some p => [p] | None => [] end) ++ lps_of T).
    rewrite map_app, cnt_app, IH by (intros q Hq; apply Hin; right; exact Hq).
    rewrite <- (sum_indicator (r_tid r) (cnt (map fst match r_lp r with Some p => [p] | None => [] end)) ids Hnd
                  (Hin r (or_introl eq_refl))).
    rewrite <- sum_add. f_equal. apply map_ext. intros t.
    change (lps_thread t (r :: T)) with
      ((if r_tid r =? t then match r_lp r with Some p => [fst p] | None => [] end else []) ++ lps_thread t T).
    rewrite cnt_app. f_equal. destruct (r_tid r =? t); [|reflexivity]. destruct (r_lp r); reflexivity.
Qed.

(* a linearization point of the trace is one of its thread's *)
Lemma lps_of_thread (T : list irec) p : In p (lps_of T) -> exists r, In r T /\ In (fst p) (lps_thread (r_tid r) T).
Proof.
  intros Hin. unfold lps_of in Hin. apply in_flat_map in Hin. destruct Hin as (r & Hr & Hp).
  exists r. split; [exact Hr|]. unfold lps_thread. apply in_flat_map. exists r. split; [exact Hr|].
  rewrite Nat.eqb_refl. destruct (r_lp r) as [q|]; [|destruct Hp]. destruct Hp as [->|[]]. left. reflexivity.
Qed.

End Count.

(* ------------------------------------------------------------------------------------------------ *)
(* the theorem                                                                                        *)
(* ------------------------------------------------------------------------------------------------ *)
Section Counter.
Variables (K V : Type) (ltb : K -> K -> bool).
Hypothesis HS : SWO ltb.
Variable order : nat.
Hypothesis Heven : Nat.even order = true.
Hypothesis H4 : 4 <= order.
Variable progs : list (tid * list (cop K V)).
Hypothesis Hnd : NoDup (map fst progs).
Variable k : K.
Variable inc : option V -> V.

(* the client call writes a key equivalent to k *)
Definition is_writer (o : cop K V) : bool :=
  match o with
  | CInsert k' _ | CUpdate k' _ | CDelete k' => eqvb ltb k k'
  | CSearch _ | CScan _ _ => false
  end.

(* the number of calls in the programs that write (a key equivalent to) k *)
Definition writers : nat := length (filter is_writer (concat (map snd progs))).

(* every call that writes (a key equivalent to) k is an Update with callback inc *)
Hypothesis Hops : forall t p o, In (t, p) progs -> In o p -> is_writer o = true -> exists k', o = CUpdate k' inc.

Lemma wop_spec o po : spec_op o = Some po -> wop ltb k po = is_writer o.
Proof. destruct o; simpl; intros H; inversion H; reflexivity. Qed.

Lemma cw_map_spec p : cw ltb k (map_spec p) = length (filter is_writer p).
Proof.
  induction p as [|o p IH]; [reflexivity|].
  change (map_spec (o :: p)) with ((match spec_op o with Some po => [po] | None => [] end) ++ map_spec p).
  rewrite cw_app, IH. cbn [filter]. destruct o as [k0 v|k0 f|k0|k0|k0 n]; unfold cw; cbn [spec_op filter wop is_writer];
    try (destruct (eqvb ltb k k0); reflexivity); reflexivity.
Qed.

Lemma in_map_spec (po : op K V) (p : list (cop K V)) : In po (map_spec p) -> exists o, In o p /\ spec_op o = Some po.
Proof.
  intros H. unfold map_spec in H. apply in_flat_map in H. destruct H as (o & Ho & Hpo).
  exists o. split; [exact Ho|]. destruct (spec_op o); [|destruct Hpo]. destruct Hpo as [->|[]]. reflexivity.
Qed.

Lemma writers_sum : forall (l : list (tid * list (cop K V))),
  list_sum (map (fun tp => length (filter is_writer (snd tp))) l) = length (filter is_writer (concat (map snd l))).
Proof.
  induction l as [|[t p] l IH]; [reflexivity|]. simpl.
  rewrite filter_app, app_length. simpl in IH. rewrite IH. reflexivity.
Qed.

Theorem counter sched :
  let final := is_st (iexec ltb order (iinit progs) sched) in
  (forall t, In t (map fst progs) -> unfinished final t = false) ->
  lookup ltb k (abs ltb final) = Nat.iter writers (fun a => Some (inc a)) None.
Proof.
  intros final Hfin.
  destruct (legal_history K V ltb HS order Heven H4 progs Hnd sched) as [_ Hfinal].
  fold final in Hfinal. rewrite <- Hfinal.
  set (tr := itrace ltb order (iinit progs) sched) in *.
  change (flat_map (fun r : irec K V => match r_lp r with Some p => [p] | None => [] end) tr) with (lps_of tr).
  (* the linearization points of thread t are the specification operations of its program *)
  assert (Hthr : forall t p, In (t, p) progs -> lps_thread t tr = map_spec p).
  { intros t p Hin. apply (proj2 (program_order K V ltb HS order Heven H4 progs Hnd sched t p Hin)).
    apply Hfin. apply in_map_iff. exists (t, p). split; [reflexivity|exact Hin]. }
  assert (Htid : forall r, In r tr -> In (r_tid r) (map fst progs)).
  { intros r Hr. exact (trace_tids K V ltb HS order Heven H4 progs Hnd sched r Hr). }
  rewrite (run_spec_lookup K V ltb HS k inc).
  - (* the count *)
    cbn [lookup]. f_equal. unfold cw.
    rewrite (count_by_thread K V (wop ltb k) (map fst progs) Hnd tr Htid).
    rewrite map_map. unfold writers. rewrite <- writers_sum. f_equal. apply map_ext_in.
    intros [t p] Hin. cbn [fst snd]. rewrite (Hthr t p Hin). apply cw_map_spec.
  - exact I.
  - (* every linearized operation that writes k is an Update with inc *)
    intros po Hpo Hw. apply in_map_iff in Hpo. destruct Hpo as (q & <- & Hq).
    destruct (lps_of_thread K V tr q Hq) as (r & Hr & Hin).
    pose proof (Htid r Hr) as Ht. apply in_map_iff in Ht. destruct Ht as ([t p] & Et & Htp). cbn [fst] in Et.
    rewrite <- Et, (Hthr t p Htp) in Hin. destruct (in_map_spec _ _ Hin) as (o & Ho & Hso).
    rewrite (wop_spec o _ Hso) in Hw. destruct (Hops t p o Htp Ho Hw) as (k' & ->).
    cbn [spec_op] in Hso. inversion Hso. eauto.
Qed.

End Counter.

Lemma filter_all {A} (f : A -> bool) (l : list A) : (forall x, In x l -> f x = true) -> filter f l = l.
Proof.
  induction l as [|a l IH]; intros H; [reflexivity|]. simpl. rewrite (H a (or_introl eq_refl)).
  rewrite IH; [reflexivity|]. intros x Hx. apply H. right. exact Hx.
Qed.

(* the instance of property C05: natural-number counters, every call is  Update k (+1) *)
Section NatCounter.
Variables (K : Type) (ltb : K -> K -> bool).
Hypothesis HS : SWO ltb.
Variable order : nat.
Hypothesis Heven : Nat.even order = true.
Hypothesis H4 : 4 <= order.
Variable progs : list (tid * list (cop K nat)).
Hypothesis Hnd : NoDup (map fst progs).
Variable k : K.

Definition plus_one (a : option nat) : nat := match a with None => 1 | Some n => S n end.

Hypothesis Hall : forall t p o, In (t, p) progs -> In o p -> o = CUpdate k plus_one.

Lemma iter_plus_one n :
  Nat.iter n (fun a => Some (plus_one a)) None = match n with 0 => None | S _ => Some n end.
Proof.
  induction n as [|n IH]; [reflexivity|].
  change (Nat.iter (S n) (fun a => Some (plus_one a)) None)
    with (Some (plus_one (Nat.iter n (fun a => Some (plus_one a)) None))).
  rewrite IH. destruct n; reflexivity.
Qed.

Theorem counter_nat sched :
  let final := is_st (iexec ltb order (iinit progs) sched) in
  let N := length (concat (map snd progs)) in
  (forall t, In t (map fst progs) -> unfinished final t = false) ->
  lookup ltb k (abs ltb final) = match N with 0 => None | S _ => Some N end.
Proof.
  intros final N Hfin.
  assert (Hops : forall t p o, In (t, p) progs -> In o p -> is_writer K nat ltb k o = true ->
                   exists k', o = CUpdate k' plus_one).
  { intros t p o Htp Ho _. exists k. exact (Hall t p o Htp Ho). }
  pose proof (counter K nat ltb HS order Heven H4 progs Hnd k plus_one Hops sched Hfin) as H.
  fold final in H. rewrite H. clear H.
  assert (E : writers K nat ltb progs k = N).
  { unfold writers, N. f_equal. apply filter_all. intros o Ho.
    apply in_concat in Ho. destruct Ho as (p & Hp & Ho). apply in_map_iff in Hp. destruct Hp as ([t p'] & <- & Htp).
    rewrite (Hall t p' o Htp Ho). cbn [is_writer]. unfold eqvb. rewrite (SearchProof.ltb_irrefl K ltb HS k). reflexivity. }
  rewrite E. apply iter_plus_one.
Qed.

End NatCounter.

Print Assumptions counter.
Print Assumptions counter_nat.

(* SUMMARY.  Proved, no axioms.
   counter : SWO ltb -> Nat.even order = true -> 4 <= order -> NoDup (map fst progs) ->
     (forall t p o, In (t,p) progs -> In o p -> is_writer ltb k o = true -> exists k', o = CUpdate k' inc) ->
     forall sched, let final := is_st (iexec ltb order (iinit progs) sched) in
     (forall t, In t (map fst progs) -> unfinished final t = false) ->
     lookup ltb k (abs ltb final) = Nat.iter (writers ltb progs k) (fun a => Some (inc a)) None
   where is_writer ltb k o = true iff o is an Insert/Update/Delete of a key equivalent to k (eqvb ltb k k'), and
   writers ltb progs k = number of such calls in all the programs.  So the programs may contain, besides the
   Updates  CUpdate k' inc  of (keys equivalent to) k, arbitrary operations on other keys and arbitrary Search /
   Scan calls; the final value of k is inc folded exactly N = writers times from "absent".
   counter_nat : the instance V = nat, every call is CUpdate k plus_one (plus_one None = 1, plus_one (Some n) = S n):
     lookup ltb k (abs ltb final) = match N with 0 => None | S _ => Some N end,  N = total number of calls.
   Proof: legal_history (the final map is the run of the linearization points), program_order (a finished thread's
   linearization points are exactly the specification operations of its program), count_by_thread (the linearization
   points of the trace split by thread), run_spec_lookup (folding the writers of k in a run of the specification).
   Reusable: run_spec_lookup, step_spec_lookup, count_by_thread, lps_of_thread, sum_indicator. *)

"""In-Coq cross-check: a sample of sequential cases, with the Go observations embedded, is evaluated by
vm_compute inside Coq (cross-checks the OCaml extraction against the kernel's evaluation)."""
import os, re
from . import common, seqcheck


def zlit(n):
    return "(%d)%%Z" % n


def key(k):
    c, t = k.split(".")
    return "(%s, %s)" % (zlit(int(c)), zlit(int(t)))


def val(v):
    return "None" if v == "nil" else "(Some %s)" % zlit(int(v))


def optval(v):
    return "None" if v == "none" else "(Some %s)" % val(v)


def pairs(s):
    if not s:
        return "[]"
    items = []
    for p in s.split(","):
        k, v = p.split("=")
        items.append("(%s, %s)" % (key(k), val(v)))
    return "[" + "; ".join(items) + "]"


def tree_term(n):
    kind, items = n
    if kind == "L":
        return "(Leaf [" + "; ".join("(%s, %s)" % (key(k), val(v)) for k, v in items) + "])"
    return "(Node [" + "; ".join("(%s, %s)" % (key(k), tree_term(c)) for k, c in items) + "])"


def op_term(o):
    f = o.split()
    if f[0] == "I":
        return "XI %s %s" % (key(f[1]), val(f[2]))
    if f[0] == "U":
        return "XU %s %s" % (key(f[1]), zlit(int(f[2])))
    if f[0] == "D":
        return "XD %s" % key(f[1])
    if f[0] == "S":
        return "XS %s" % key(f[1])
    n = int(f[2])
    return "XC %s %s" % (key(f[1]), "None" if n < 0 else "(Some %d)" % n)


def obs_term(res):
    if res == "ok":
        return "XOk"
    if res.startswith("panic="):
        return "XPanic"
    m = re.match(r"arg=(\S+) calls=1$", res)
    if m:
        return "XArg %s" % optval(m.group(1))
    if res.startswith("found="):
        return "XFound %s" % optval(res[6:])
    if res.startswith("pairs="):
        return "XPairs %s" % pairs(res[6:])
    return "XPanic"


def run(cases, go, workdir, limit_ops=4000, drop_kinds=""):
    """cases: list of case dicts; go: dict id -> parsed go lines. Returns (n_cases, n_ops, mismatches list, error)."""
    lines = ["From Coq Require Import ZArith List.", "From GB Require Import Model Instances CrossCheck.", "Import ListNotations.",
             "Definition cases : list xcase := ["]
    items, total, used = [], 0, []
    for idx, c in enumerate(cases):
        g = go.get(c["id"], [])
        if not g or len(g) != len(c["ops"]) or c.get("nodump") or any(l["res"].startswith("panic=") for l in g):
            continue
        if total + len(c["ops"]) > limit_ops:
            continue
        try:
            final = tree_term(seqcheck.parse_snap(g[-1]["snap"]))
        except Exception:
            continue
        # operations outside the property's projection are dropped (scans are read-only, so the state is unaffected)
        ops = "; ".join("(%s, %s)" % (op_term(o), obs_term(l["res"])) for o, l in zip(c["ops"], g) if o[0] not in drop_kinds)
        items.append("  {| xid := %d; xorder := %d; xops := [%s]; xfinal := %s |}" % (idx, c["order"], ops, final))
        total += len(c["ops"])
        used.append(c["id"])
    lines.append(";\n".join(items))
    lines += ["].", "Definition M := Eval vm_compute in mismatches cases.", "Print M."]
    path = os.path.join(workdir, "xcases.v")
    open(path, "w").write("\n".join(lines) + "\n")
    r = common.run(["timeout", "600", "coqc", "-Q", common.COQ, "GB", path], cwd=workdir)
    out = r.stdout + r.stderr
    if r.returncode != 0:
        return len(used), total, None, out[-1500:]
    m = re.search(r"M\s*=\s*(.*?)\s*:\s*list", out, flags=re.S)
    body = m.group(1).strip() if m else "?"
    mism = [] if body == "[]" else [body[:500]]
    return len(used), total, mism, None


# ---------------- concurrent model ----------------
def xcop_term(o):
    f = o.split()
    if f[0] == "I":
        return "XCI %s %s" % (key(f[1]), val(f[2]))
    if f[0] == "U":
        return "XCU %s %s" % (key(f[1]), zlit(int(f[2])))
    if f[0] == "D":
        return "XCD %s" % key(f[1])
    if f[0] == "S":
        return "XCS %s" % key(f[1])
    return "XCC %s %d" % (key(f[1]), int(f[2]))


def xores_term(r):
    if r == "ok":
        return "XRUnit"
    m = re.match(r"arg=(\S+)/calls=1$", r)
    if m:
        return "XRArg %s" % optval(m.group(1))
    if r.startswith("found="):
        return "XRFound %s" % optval(r[6:])
    if r.startswith("pairs="):
        return "XRPairs %s" % pairs(r[6:])
    return None


def run_conc(cases, go_runs, workdir, limit_steps=3000):
    """cases: dict id -> sched case; go_runs: dict (id, k) -> parsed Go run. Complete runs only."""
    from . import schedcheck
    items, used, steps = [], 0, 0
    per_case = {}
    for (cid, k), run in go_runs.items():
        c = cases.get(cid)
        if per_case.get(cid, 0) >= 2:
            continue
        if c is None or run["deadlock"] or run["truncated"] or run["odd"] or not run["end"]:
            continue
        if steps + len(run["steps"]) > limit_steps or len(run["steps"]) > 120 or c["order"] > 16:
            continue
        try:
            final = tree_term(seqcheck.parse_snap(schedcheck.split_state(run["end"])["tree"]))
        except Exception:
            continue
        res_terms = []
        ok = True
        for t, rs in run["res"].items():
            parts = [xores_term(x) for x in rs.split(";") if x]
            if any(p is None for p in parts):
                ok = False
                break
            res_terms.append("(%d, [%s])" % (t, "; ".join(parts)))
        if not ok:
            continue
        init = "; ".join(xcop_term(o) for o in c["init"] if o.strip())
        progs = "; ".join("(%d, [%s])" % (t, "; ".join(xcop_term(o) for o in c["progs"][t])) for t in sorted(c["progs"]))
        sched = "; ".join(str(s["w"]) for s in run["steps"])
        items.append("  {| xc_id := %d; xc_order := %d; xc_init := [%s]; xc_progs := [%s]; xc_sched := [%s]; xc_final := %s; xc_results := [%s] |}"
                     % (used, c["order"], init, progs, sched, final, "; ".join(res_terms)))
        used += 1
        per_case[cid] = per_case.get(cid, 0) + 1
        steps += len(run["steps"])
        if used >= 60:
            break
    if not items:
        return 0, 0, [], None
    lines = ["From Coq Require Import ZArith List.", "From GB Require Import Model Instances Conc CrossCheck CrossCheckConc.", "Import ListNotations.",
             "Definition cases : list xccase := [", ";\n".join(items), "].",
             "Definition M := Eval vm_compute in xc_mismatches cases.", "Print M."]
    path = os.path.join(workdir, "xccases.v")
    open(path, "w").write("\n".join(lines) + "\n")
    r = common.run(["timeout", "900", "coqc", "-Q", common.COQ, "GB", path], cwd=workdir)
    out = r.stdout + r.stderr
    if r.returncode != 0:
        return used, steps, None, out[-1500:]
    m = re.search(r"M\s*=\s*(.*?)\s*:\s*list", out, flags=re.S)
    body = m.group(1).strip() if m else "?"
    return used, steps, ([] if body == "[]" else [body[:300]]), None

(* CrossCheck.v — evaluates the model inside Coq (vm_compute) on cases that embed the implementation's
   observations, to cross-check the OCaml extraction against the kernel's own evaluation.  The harness
   writes a cases file that imports this one and prints [mismatches cases]. *)
From Coq Require Import ZArith List Bool.
From GB Require Import Model Instances.
Import ListNotations.

Inductive xop := XI (k : HK) (v : HV) | XU (k : HK) (d : Z) | XD (k : HK) | XS (k : HK) | XC (k : HK) (n : option nat).
Inductive xobs := XOk | XArg (a : option HV) | XFound (a : option HV) | XPairs (l : list (HK * HV)) | XPanic.

Definition hk_eqb (a b : HK) := Z.eqb (fst a) (fst b) && Z.eqb (snd a) (snd b).
Definition hv_eqb (a b : HV) := match a, b with None, None => true | Some x, Some y => Z.eqb x y | _, _ => false end.
Definition ohv_eqb (a b : option HV) := match a, b with None, None => true | Some x, Some y => hv_eqb x y | _, _ => false end.
Fixpoint pairs_eqb (a b : list (HK * HV)) : bool :=
  match a, b with
  | [], [] => true
  | (k, v) :: a', (k', v') :: b' => hk_eqb k k' && hv_eqb v v' && pairs_eqb a' b'
  | _, _ => false
  end.
Fixpoint tree_eqb (a b : htree) {struct a} : bool :=
  match a, b with
  | Leaf ea, Leaf eb => pairs_eqb ea eb
  | Node ca, Node cb =>
    (fix go (x : list (HK * htree)) (y : list (HK * htree)) {struct x} : bool :=
       match x, y with
       | [], [] => true
       | (k, c) :: x', (k', c') :: y' => hk_eqb k k' && tree_eqb c c' && go x' y'
       | _, _ => false
       end) ca cb
  | _, _ => false
  end.
Definition xobs_eqb (a b : xobs) : bool :=
  match a, b with
  | XOk, XOk => true | XPanic, XPanic => true
  | XArg x, XArg y => ohv_eqb x y | XFound x, XFound y => ohv_eqb x y
  | XPairs x, XPairs y => pairs_eqb x y
  | _, _ => false
  end.

Definition xstep (order : nat) (t : htree) (o : xop) : htree * xobs :=
  match o with
  | XI k v => match h_upsert order k (fun _ => v) t with Ok (t', _) => (t', XOk) | Panic _ => (t, XPanic) end
  | XU k d => match h_upsert order k (add_cb d) t with Ok (t', a) => (t', XArg a) | Panic _ => (t, XPanic) end
  | XD k => match h_delete order k t with Ok t' => (t', XOk) | Panic _ => (t, XPanic) end
  | XS k => match h_search k t with Ok r => (t, XFound r) | Panic _ => (t, XPanic) end
  | XC k n => match h_scan k t with
              | Ok l => (t, XPairs (match n with Some m => firstn m l | None => l end))
              | Panic _ => (t, XPanic) end
  end.

(* index of the first operation whose observation differs from the implementation's, or whether the final
   structure differs *)
Fixpoint xrun (order : nat) (t : htree) (i : nat) (ops : list (xop * xobs)) (final : htree) : option nat :=
  match ops with
  | [] => if tree_eqb t final then None else Some i
  | (o, e) :: r => let '(t', x) := xstep order t o in if xobs_eqb x e then xrun order t' (S i) r final else Some i
  end.

Record xcase := { xid : nat; xorder : nat; xops : list (xop * xobs); xfinal : htree }.
Definition mismatches (cs : list xcase) : list (nat * nat) :=
  flat_map (fun c => match xrun (xorder c) (Leaf []) 0 (xops c) (xfinal c) with None => [] | Some i => [(xid c, i)] end) cs.

(* PCc_Low.v — LOWER bounds of key ranges.  [bm] (PCb2_Bounds.v) says that a step does not shrink the range of a node
   outside its write set; here the sharper fact for the lower bound: it does not change at all.  The lower bound
   of a node is its own separator in its parent; [lnodes lo t] lists (identity, lower bound) for every node of t and
   does not depend on the upper bounds passed down, so the statement is a plain inclusion of lists outside the
   write set ([ll]).  Per-block lemmas as in PCb2_Blocks.v. *)
From Coq Require Import List Permutation Lia Bool PeanoNat.
From GB Require Import ListLemmas TreeLemmas SearchProof Inv Frame LockProof CInv CInv3 Lin UpdLemmas FrameRel FrameInv FrameBlocks
  PCb2_Bounds PCb2_Blocks.
Import ListNotations.

Section Low.
Variables (K V : Type) (ltb : K -> K -> bool).
Notation itree := (itree K V).
Notation out := (out K V).
Notation find := (@Conc.find K V).
Notation reb_shape := (reb_shape K V).

(* ---------- the list of (identity, lower bound) ---------- *)
Fixpoint lnodes (lo : option K) (t : itree) : list (id * option K) :=
  match t with
  | ILeaf i _ _ => [(i, lo)]
  | INode i cs => (i, lo) :: flat_map (fun sc => lnodes (Some (fst sc)) (snd sc)) cs
  end.
Definition lnodesl (cs : list (K * itree)) : list (id * option K) :=
  flat_map (fun sc => lnodes (Some (fst sc)) (snd sc)) cs.

Lemma lnodes_node lo i cs : lnodes lo (INode i cs) = (i, lo) :: lnodesl cs.
Proof. reflexivity. Qed.
Lemma lnodesl_cons s (c : itree) r : lnodesl ((s, c) :: r) = lnodes (Some s) c ++ lnodesl r.
Proof. reflexivity. Qed.
Lemma lnodesl_app a b : lnodesl (a ++ b) = lnodesl a ++ lnodesl b.
Proof. unfold lnodesl. apply flat_map_app. Qed.
Lemma lnodesl_nil : lnodesl [] = [].
Proof. reflexivity. Qed.

Definition proj (e : id * bnd K) : id * option K := (fst e, fst (snd e)).

Lemma lnodes_bnodes (t : itree) : forall lo hi, map proj (bnodes lo hi t) = lnodes lo t.
Proof.
  induction t as [i nx es|i cs IH] using itree_ind2; intros lo hi; [reflexivity|].
  rewrite bnodes_node, lnodes_node. simpl. f_equal.
  revert hi. induction cs as [|[s c] r IHr]; intros hi; [reflexivity|].
  inversion IH as [|? ? H1 H2]; subst. rewrite bnodesl_cons, lnodesl_cons, map_app. simpl in H1.
  rewrite H1, IHr; auto.
Qed.

Lemma bounds_lnodes x b (t : itree) : NoDup (ids t) -> bounds x t = Some b -> In (x, fst b) (lnodes None t).
Proof.
  intros Hnd Hb. apply (bounds_iff K V) in Hb; [|exact Hnd].
  rewrite <- (lnodes_bnodes t None None). apply in_map_iff. exists (x, b). split; [reflexivity | exact Hb].
Qed.

Lemma lnodes_bounds x l (t : itree) : NoDup (ids t) -> In (x, l) (lnodes None t) -> exists b, bounds x t = Some b /\ fst b = l.
Proof.
  intros Hnd Hin. rewrite <- (lnodes_bnodes t None None) in Hin. apply in_map_iff in Hin.
  destruct Hin as [[y b] [E Hin]]. unfold proj in E. simpl in E. inversion E; subst.
  exists b. split; [apply (bounds_iff K V); auto | reflexivity].
Qed.

Lemma lnodes_hd lo (t : itree) : exists r, lnodes lo t = (nid t, lo) :: r.
Proof. destruct t; simpl; eauto. Qed.

(* the lower bound passed down matters only for the node itself *)
Lemma lnodes_lo lo lo' (t : itree) y v : y <> nid t -> In (y, v) (lnodes lo t) -> In (y, v) (lnodes lo' t).
Proof.
  destruct t as [i nx es|i cs]; simpl; intros Hy [E|Hin]; try (inversion E; subst; congruence); [destruct Hin | right; exact Hin].
Qed.

(* ---------- inclusion outside W ---------- *)
Definition ll (W : list id) (l l' : list (id * option K)) : Prop :=
  forall y v, ~ In y W -> In (y, v) l -> In (y, v) l'.

Lemma ll_refl W l : ll W l l.
Proof. intros y v _ H. exact H. Qed.
Lemma ll_trans W a b c : ll W a b -> ll W b c -> ll W a c.
Proof. intros H1 H2 y v Hy Hin. auto. Qed.
Lemma ll_mono W W' a b : incl W W' -> ll W a b -> ll W' a b.
Proof. intros Hi H y v Hy. apply H. intro X. apply Hy. apply Hi. exact X. Qed.
Lemma ll_app W a a' b b' : ll W a a' -> ll W b b' -> ll W (a ++ b) (a' ++ b').
Proof. intros H1 H2 y v Hy Hin. apply in_app_iff in Hin. apply in_or_app. destruct Hin; [left|right]; auto. Qed.
Lemma ll_cons W e a a' : ll W a a' -> ll W (e :: a) (e :: a').
Proof. intros H y v Hy [E|Hin]; [left; exact E | right; auto]. Qed.

(* the global form *)
Definition bl (W : list id) (t t' : itree) : Prop := ll W (lnodes None t) (lnodes None t').

Lemma bl_refl W t : bl W t t. Proof. apply ll_refl. Qed.
Lemma bl_trans W a b c : bl W a b -> bl W b c -> bl W a c. Proof. apply ll_trans. Qed.
Lemma bl_mono W W' a b : incl W W' -> bl W a b -> bl W' a b. Proof. apply ll_mono. Qed.

Lemma bl_bounds W x b (t t' : itree) :
  NoDup (ids t) -> NoDup (ids t') -> bl W t t' -> ~ In x W -> bounds x t = Some b ->
  exists b', bounds x t' = Some b' /\ fst b' = fst b.
Proof.
  intros H1 H2 H Hx Hb. apply (lnodes_bounds x (fst b) t' H2). apply (H x (fst b) Hx). apply bounds_lnodes; auto.
Qed.

Lemma below_lo_bl W k x (t t' : itree) :
  NoDup (ids t) -> NoDup (ids t') -> bl W t t' -> ~ In x W -> In x (ids t) ->
  below_lo ltb k x t' = below_lo ltb k x t.
Proof.
  intros H1 H2 H Hx Hin. unfold below_lo.
  destruct (bounds x t) as [b|] eqn:E.
  - destruct (bl_bounds W x b t t' H1 H2 H Hx E) as [b' [E' Hf]]. rewrite E'.
    destruct b as [lo hi]; destruct b' as [lo' hi']; simpl in Hf; subst; reflexivity.
  - exfalso. unfold bounds in E. rewrite bounds_assoc in E.
    assert (X : In x (map fst (bnodes None None t))) by (rewrite map_fst_bnodes; exact Hin).
    apply in_map_iff in X. destruct X as [[y b] [Ey Hy]]. simpl in Ey. subst y.
    apply (assoc_in K x b) in Hy; [congruence|]. rewrite map_fst_bnodes. exact H1.
Qed.

(* the upper-bound half of [in_range_bm] *)
Lemma below_hi_bm W k x (t t' : itree) :
  bm ltb W t t' -> ~ In x W -> below_hi ltb k x t = true -> below_hi ltb k x t' = true.
Proof.
  intros H Hx. unfold below_hi. destruct (bounds x t) as [[lo hi]|] eqn:E; [|discriminate].
  destruct (H x (lo, hi) Hx E) as [[lo' hi'] [A [B1 B2]]]. rewrite A. simpl in *. apply B2.
Qed.

(* ---------- upd rewrites one segment ---------- *)
Lemma upd_lnodes x (n n' : itree) : nid n' = nid n -> forall (t t' : itree) lo,
  NoDup (ids t) -> find x t = Some n -> upd x (fun _ => Ok n') t = Ok t' ->
  exists pre post lp, lnodes lo t = pre ++ lnodes lp n ++ post /\ lnodes lo t' = pre ++ lnodes lp n' ++ post.
Proof.
  intros Hn t t' lo Hnd Hf Hu.
  destruct (upd_bnodes K V x n n' Hn t t' lo None Hnd Hf Hu) as [pre [post [lp [hp [P1 P2]]]]].
  exists (map proj pre), (map proj post), lp.
  rewrite <- (lnodes_bnodes t lo None), <- (lnodes_bnodes t' lo None), P1, P2, !map_app, !lnodes_bnodes. auto.
Qed.

Lemma upd_bl W x (n n' t t' : itree) :
  NoDup (ids t) -> find x t = Some n -> nid n' = nid n -> upd x (fun _ => Ok n') t = Ok t' ->
  (forall lo, ll W (lnodes lo n) (lnodes lo n')) -> bl W t t'.
Proof.
  intros Hnd Hf Hn Hu H. unfold bl.
  destruct (upd_lnodes x n n' Hn t t' None Hnd Hf Hu) as [pre [post [lp [P1 P2]]]].
  rewrite P1, P2. apply ll_app; [apply ll_refl|]. apply ll_app; [apply H | apply ll_refl].
Qed.

(* a node whose children change in one segment *)
Lemma kids_ll W p (A mid mid' B : list (K * itree)) :
  ll W (lnodesl mid) (lnodesl mid') ->
  forall lo, ll W (lnodes lo (INode p (A ++ mid ++ B))) (lnodes lo (INode p (A ++ mid' ++ B))).
Proof.
  intros Hm lo. rewrite !lnodes_node. apply ll_cons. rewrite !lnodesl_app.
  apply ll_app; [apply ll_refl|]. apply ll_app; [exact Hm | apply ll_refl].
Qed.

(* ---------- leaf writes ---------- *)
Lemma upd_leaf_bl x i nx nx' es es' (t t' : itree) :
  NoDup (ids t) -> find x t = Some (ILeaf i nx es) -> upd x (fun _ => Ok (ILeaf i nx' es')) t = Ok t' -> bl [] t t'.
Proof.
  intros Hnd Hf Hu. apply (upd_bl [] x (ILeaf i nx es) (ILeaf i nx' es') t t' Hnd Hf eq_refl Hu).
  intros lo. apply ll_refl.
Qed.

Lemma leaf_root_bl i nx nx' (es es' : list (K * V)) : bl [] (ILeaf i nx es) (ILeaf i nx' es').
Proof. apply ll_refl. Qed.

Lemma ins_descend_bl o n (t : itree) l fr tmx (out : out) :
  ins_descend ltb o n t l fr tmx = Ok out -> NoDup (ids t) -> bl [] t (otr out).
Proof.
  intros H Hnd. unfold ins_descend, mk in H.
  destruct (find n t) as [[i nx es|pi cs]|] eqn:Hf; [| |discriminate H].
  - crunch H; inversion H; subst; clear H; cbn [otr].
    all: try (eapply upd_leaf_bl; eauto; fail).
    all: apply bl_refl.
  - crunch H; inversion H; subst; clear H; cbn [otr]. apply bl_refl.
Qed.

(* ---------- Insert/Update at an internal node ---------- *)
Lemma ins_nosplit_bl p pi cs index sep sep' child (t t' : itree) :
  NoDup (ids t) -> find p t = Some (INode pi cs) -> nth_error cs index = Some (sep, child) ->
  upd p (fun _ => Ok (INode pi (set_nth index (sep', child) cs))) t = Ok t' ->
  bl [nid child] t t'.
Proof.
  intros Hnd Hf Hn Hu.
  destruct (nth_error_split cs index Hn) as [A [B [E L]]]. subst cs index.
  rewrite set_nth_app in Hu.
  apply (upd_bl [nid child] p _ (INode pi (A ++ (sep', child) :: B)) t t' Hnd Hf eq_refl Hu). intros lo.
  apply (kids_ll [nid child] pi A [(sep, child)] [(sep', child)] B).
  rewrite !lnodesl_cons, lnodesl_nil, !app_nil_r. intros y v Hy Hin.
  eapply lnodes_lo; [|exact Hin]. intro X. apply Hy. left. auto.
Qed.

Lemma split_ll order fr (child lft rgt : itree) :
  isplit order fr child = Some (lft, rgt) -> icount child <= 2 * Nat.div2 order ->
  forall lo lo' rs, ll [nid child; fr] (lnodes lo child) (lnodes lo' lft ++ lnodes rs rgt).
Proof.
  unfold isplit. destruct (icount child <? order); [discriminate|].
  destruct child as [i nx es|i cs]; intros H Hle lo lo' rs; inversion H; subst; clear H.
  - intros y v Hy [E|[]]. inversion E; subst. exfalso. apply Hy. simpl. auto.
  - simpl icount in Hle. set (hh := Nat.div2 order) in *.
    assert (E : firstn hh (skipn hh cs) = skipn hh cs) by (apply firstn_all2; rewrite skipn_length; lia).
    rewrite E. rewrite !lnodes_node.
    assert (Ecs : lnodesl cs = lnodesl (firstn hh cs) ++ lnodesl (skipn hh cs)).
    { rewrite <- lnodesl_app, firstn_skipn. reflexivity. }
    rewrite Ecs. intros y v Hy [X|X].
    + inversion X; subst. exfalso. apply Hy. simpl. auto.
    + simpl. rewrite !in_app_iff in *. simpl. tauto.
Qed.

Lemma ins_split_bl order p pi cs index sep sep' rs child lft rgt fr (t t' : itree) :
  NoDup (ids t) -> find p t = Some (INode pi cs) -> nth_error cs index = Some (sep, child) ->
  isplit order fr child = Some (lft, rgt) ->
  upd p (fun _ => Ok (INode pi (ins_nth (index + 1) (rs, rgt) (set_nth index (sep', lft) cs)))) t = Ok t' ->
  icount child <= 2 * Nat.div2 order ->
  bl [nid child; fr] t t'.
Proof.
  intros Hnd Hf Hn Hs Hu Hle.
  destruct (nth_error_split cs index Hn) as [A [B [E L]]]. subst cs index.
  rewrite set_nth_app, ins_nth_app1 in Hu.
  apply (upd_bl [nid child; fr] p _ (INode pi (A ++ (sep', lft) :: (rs, rgt) :: B)) t t' Hnd Hf eq_refl Hu). intros lo.
  apply (kids_ll [nid child; fr] pi A [(sep, child)] [(sep', lft); (rs, rgt)] B).
  rewrite !lnodesl_cons, lnodesl_nil, !app_nil_r. eapply split_ll; eauto.
Qed.

(* ---------- the root ---------- *)
Lemma root_split_bl order fr ls rs lft rgt (t : itree) :
  isplit order fr t = Some (lft, rgt) -> icount t <= 2 * Nat.div2 order ->
  bl [nid t; fr; S fr] t (INode (S fr) [(ls, lft); (rs, rgt)]).
Proof.
  intros Hs Hle. unfold bl. rewrite lnodes_node, !lnodesl_cons, lnodesl_nil, app_nil_r.
  intros y v Hy Hin. right.
  apply (split_ll order fr t lft rgt Hs Hle None (Some ls) (Some rs) y v); [|exact Hin].
  intro X. apply Hy. simpl in *. tauto.
Qed.

Lemma root_collapse_bl r k (c : itree) : bl [r; nid c] (INode r [(k, c)]) c.
Proof.
  unfold bl. rewrite lnodes_node, lnodesl_cons, lnodesl_nil, app_nil_r.
  intros y v Hy [E|Hin].
  - inversion E; subst. exfalso. apply Hy. simpl. auto.
  - eapply lnodes_lo; [|exact Hin]. intro X. apply Hy. simpl. auto.
Qed.

(* ---------- Delete: rebalancing ---------- *)
Ltac ll_solve :=
  let y := fresh "y" in let v := fresh "v" in let Hy := fresh "Hy" in let Hin := fresh "Hin" in
  intros y v Hy Hin; simpl in *; rewrite ?lnodesl_app, ?lnodesl_cons, ?lnodesl_nil in *; simpl in *;
  rewrite ?in_app_iff in *; simpl in *; rewrite ?in_app_iff in *;
  repeat match goal with
         | H : _ \/ _ |- _ => destruct H as [H|H]
         | H : (_, _) = (_, _) |- _ => inversion H; subst; clear H
         | H : False |- _ => destruct H
         end; try tauto; try (exfalso; apply Hy; tauto).

Lemma borrowR_ll W k1 child k2 rgt child' rgt' rs :
  iadopt_right child rgt = Ok (child', rgt') -> In (nid child) W -> In (nid rgt) W ->
  ll W (lnodesl [(k1, child); (k2, rgt)]) (lnodesl [(k1, child'); (rs, rgt')]).
Proof.
  unfold iadopt_right. intros H Wc Wr.
  destruct child as [li ln le|li lc]; destruct rgt as [ri rn [|x re]|ri [|x rc]]; try discriminate H; inversion H; subst; clear H;
    simpl nid in *; rewrite !lnodesl_cons, !lnodesl_nil, !app_nil_r, ?lnodes_node; ll_solve.
Qed.

Lemma borrowL_ll W k0 lft k1 child lft' child' sm :
  iadopt_left lft child = Ok (lft', child') -> In (nid lft) W -> In (nid child) W ->
  ll W (lnodesl [(k0, lft); (k1, child)]) (lnodesl [(k0, lft'); (sm, child')]).
Proof.
  unfold iadopt_left. intros H Wl Wc.
  destruct lft as [li ln le|li lc]; destruct child as [ci cn ce|ci cc]; try discriminate H.
  - destruct (rev le) as [|x le'] eqn:E; [discriminate|]. inversion H; subst; clear H.
    simpl nid in *. rewrite !lnodesl_cons, !lnodesl_nil, !app_nil_r. ll_solve.
  - destruct (rev lc) as [|x lc'] eqn:E; [discriminate|]. inversion H; subst; clear H.
    apply rev_cons_inv in E. subst lc.
    simpl nid in *. rewrite !lnodesl_cons, !lnodesl_nil, !app_nil_r, !lnodes_node. ll_solve.
Qed.

Lemma merge_ll W ka a kb b ab :
  iabsorb a b = Ok ab -> In (nid a) W -> In (nid b) W ->
  ll W (lnodesl [(ka, a); (kb, b)]) (lnodesl [(ka, ab)]).
Proof.
  unfold iabsorb. intros H Wa Wb.
  destruct a as [li ln le|li lc]; destruct b as [ri rn re|ri rc]; try discriminate H; inversion H; subst; clear H;
    simpl nid in *; rewrite !lnodesl_cons, !lnodesl_nil, !app_nil_r, ?lnodes_node; ll_solve.
Qed.

Lemma reb_ll W order idx cs cs' p :
  reb_shape order idx cs cs' ->
  (forall k ch, nth_error cs idx = Some (k, ch) -> In (nid ch) W) ->
  (forall k ch, 0 < idx -> nth_error cs (idx - 1) = Some (k, ch) -> In (nid ch) W) ->
  (forall k ch, nth_error cs (idx + 1) = Some (k, ch) -> In (nid ch) W) ->
  forall lo, ll W (lnodes lo (INode p cs)) (lnodes lo (INode p cs')).
Proof.
  intros Hsh Hc Hl Hr lo. destruct Hsh as [A B k1 child k2 rgt child' rgt' rs Hi Ha Hs
                                          |A B k0 lft k1 child lft' child' sm Hi Hcnt Ha Hs
                                          |A B k0 lft k1 child lft' Hi Ha
                                          |A B k1 child k2 rgt child' Hi Ha]; subst idx.
  - apply kids_ll. eapply borrowR_ll; eauto.
    + eapply Hc. simpl. apply nth_error_app_len.
    + eapply Hr. simpl. apply nth_error_app_len1.
  - apply kids_ll. eapply borrowL_ll; eauto.
    + eapply Hl; [lia|]. replace (length A + 1 - 1) with (length A) by lia. simpl. apply nth_error_app_len.
    + eapply Hc. simpl. apply nth_error_app_len1.
  - apply kids_ll. eapply merge_ll; eauto.
    + eapply Hl; [lia|]. replace (length A + 1 - 1) with (length A) by lia. simpl. apply nth_error_app_len.
    + eapply Hc. simpl. apply nth_error_app_len1.
  - apply kids_ll. eapply merge_ll; eauto.
    + eapply Hc. simpl. apply nth_error_app_len.
    + eapply Hr. simpl. apply nth_error_app_len1.
Qed.

Lemma irebalance_bl order f (t t' : itree) small pi cs W :
  NoDup (ids t) -> irebalance order f t = Ok (t', small) ->
  find (fp f) t = Some (INode pi cs) ->
  (forall k ch, nth_error cs (fidx f) = Some (k, ch) -> In (nid ch) W) ->
  (forall k ch, 0 < fidx f -> nth_error cs (fidx f - 1) = Some (k, ch) -> In (nid ch) W) ->
  (forall k ch, nth_error cs (fidx f + 1) = Some (k, ch) -> In (nid ch) W) ->
  bl W t t'.
Proof.
  intros Hnd H Hf Hc Hl Hr.
  destruct (irebalance_shape K V order f t t' small pi cs H Hf) as [cs' [Hu Hsh]].
  apply (upd_bl W (fp f) (INode pi cs) (INode pi cs') t t' Hnd Hf eq_refl Hu).
  eapply reb_ll; eauto.
Qed.

(* a rebalanced node left with one child: that child is one of the nodes the rebalancing wrote *)
Lemma reb_single order idx cs k c W :
  reb_shape order idx cs [(k, c)] ->
  (forall k ch, nth_error cs idx = Some (k, ch) -> In (nid ch) W) ->
  (forall k ch, 0 < idx -> nth_error cs (idx - 1) = Some (k, ch) -> In (nid ch) W) ->
  In (nid c) W.
Proof.
  intros Hsh Hc Hl. remember [(k, c)] as one eqn:Eone.
  destruct Hsh as [A B k1 child k2 rgt child' rgt' rs Hi Ha Hs
                  |A B k0 lft k1 child lft' child' sm Hi Hcnt Ha Hs
                  |A B k0 lft k1 child lft' Hi Ha
                  |A B k1 child k2 rgt child' Hi Ha]; subst idx.
  - exfalso. apply (f_equal (@length _)) in Eone. rewrite !app_length in Eone. simpl in Eone. lia.
  - exfalso. apply (f_equal (@length _)) in Eone. rewrite !app_length in Eone. simpl in Eone. lia.
  - assert (EA : A = []).
    { apply (f_equal (@length _)) in Eone. rewrite !app_length in Eone. simpl in Eone. destruct A; [reflexivity|simpl in Eone; lia]. }
    subst A. simpl in Eone. inversion Eone; subst.
    assert (Hn : nid c = nid lft).
    { unfold iabsorb in Ha. destruct lft, child; try discriminate Ha; inversion Ha; reflexivity. }
    rewrite Hn. apply (Hl k lft); [simpl; lia | reflexivity].
  - assert (EA : A = []).
    { apply (f_equal (@length _)) in Eone. rewrite !app_length in Eone. simpl in Eone. destruct A; [reflexivity|simpl in Eone; lia]. }
    subst A. simpl in Eone. inversion Eone; subst.
    assert (Hn : nid c = nid child).
    { unfold iabsorb in Ha. destruct child, rgt; try discriminate Ha; inversion Ha; reflexivity. }
    rewrite Hn. apply (Hc k child). reflexivity.
Qed.

(* ---------- the return through the deleteKey activations ---------- *)
Lemma unwind_bl order W fuel : forall o stk small right (t : itree) l fr tmx (out : out),
  unwind order fuel o stk small right t l fr tmx = Ok out ->
  NoDup (ids t) -> stack_ok t fr stk -> bottom_ok (nid t) stk ->
  (stk = [] -> right = None) ->
  NoDup (nid t :: opt_list right ++ flat_map fkids stk) ->
  incl (nid t :: opt_list right ++ flat_map fkids stk) W ->
  (forall x, right = Some x -> match stk with f :: _ => child_at t (fp f) (fidx f + 1) x | [] => True end) ->
  (stk = [] -> small = true -> forall i k c, t = INode i [(k, c)] -> In (nid c) W) ->
  bl W t (otr out).
Proof.
  induction fuel as [|fuel IH]; intros o stk small right t l fr tmx out H Hnd Hs Hb Hr Hheld HW Hright Hone;
    simpl in H; [discriminate|].
  destruct stk as [|f rest].
  - unfold mk in H. inversion H; subst; clear H. cbn [otr].
    destruct (negb small || (1 <? icount t)) eqn:E; [apply bl_refl|].
    apply orb_false_iff in E. destruct E as [Esm E]. apply Nat.ltb_ge in E.
    apply negb_false_iff in Esm.
    destruct t as [i nx es | i [|[k c] rest]]; try apply bl_refl.
    simpl in E. destruct rest; [|simpl in E; lia].
    eapply bl_mono; [|apply root_collapse_bl].
    intros x [<-|[<-|[]]].
    + apply HW. left. reflexivity.
    + eapply (Hone eq_refl Esm). reflexivity.
  - destruct Hs as (S1 & S2 & S3 & S4 & S5).
    assert (Hlinks : links (f :: rest)) by (split; [exact S4 | eapply stack_ok_links; eauto]).
    assert (Hrest : NoDup (nid t :: opt_list None ++ flat_map fkids rest)).
    { eapply nodup_sub; [|exact Hheld]. intros x. simpl. rewrite !cnt_app. lia. }
    assert (HWrest : incl (nid t :: opt_list None ++ flat_map fkids rest) W).
    { intros x Hx. apply HW. simpl in *. rewrite !in_app_iff. tauto. }
    assert (Hnext : forall small' (t' : itree), nid t' = nid t -> NoDup (ids t') -> stack_ok t' fr rest ->
              bl W t t' ->
              (rest = [] -> small' = true -> forall i k c, t' = INode i [(k, c)] -> In (nid c) W) ->
              unwind order fuel o rest small' None t' (unlock_frame_kids f right l) fr tmx = Ok out ->
              bl W t (otr out)).
    { intros small' t' Hn Hnd' Hs' Hbl Hone' Hu.
      eapply bl_trans; [exact Hbl|].
      eapply (IH o rest small' None t' _ fr tmx out Hu Hnd' Hs').
      - rewrite Hn. eapply bottom_ok_tail; eauto.
      - reflexivity.
      - rewrite Hn. exact Hrest.
      - rewrite Hn. exact HWrest.
      - intros x Hx. discriminate Hx.
      - exact Hone'. }
    destruct (negb small) eqn:Es.
    + apply (Hnext false t); auto; [apply bl_refl | intros _ X; discriminate X].
    + destruct (find (fp f) t) as [[i nx es|pi cs]|] eqn:Hf; try discriminate H.
      destruct ((fidx f + 1 <? length cs) && match right with None => true | Some _ => false end) eqn:Ec.
      * unfold mk in H. inversion H; subst; clear H. cbn [otr]. apply bl_refl.
      * destruct (irebalance order f t) as [[t' small']|] eqn:Er; [cbn [bind] in H|discriminate H].
        set (Wf := fp f :: opt_list right ++ fkids f).
        assert (Wc : forall k ch, nth_error cs (fidx f) = Some (k, ch) -> In (nid ch) Wf).
        { intros k ch Hn. destruct S3 as [c [Hfc Hca]].
          rewrite (child_at_nth K V _ _ _ _ _ _ _ _ Hca Hf Hn).
          unfold Wf, fkids. rewrite Hfc. right. rewrite !in_app_iff. right. right. simpl. auto. }
        assert (Wl : forall k ch, 0 < fidx f -> nth_error cs (fidx f - 1) = Some (k, ch) -> In (nid ch) Wf).
        { intros k ch Hpos Hn. destruct (S2 Hpos) as [l0 [Hfl Hca]].
          rewrite (child_at_nth K V _ _ _ _ _ _ _ _ Hca Hf Hn).
          unfold Wf, fkids. rewrite Hfl. right. rewrite !in_app_iff. right. left. simpl. auto. }
        assert (Wr : forall k ch, nth_error cs (fidx f + 1) = Some (k, ch) -> In (nid ch) Wf).
        { intros k ch Hn.
          assert (Hlt : fidx f + 1 < length cs) by (apply nth_error_Some; congruence).
          apply Nat.ltb_lt in Hlt. rewrite Hlt in Ec. simpl in Ec.
          destruct right as [x|]; [|discriminate Ec].
          specialize (Hright x eq_refl). simpl in Hright.
          rewrite (child_at_nth K V _ _ _ _ _ _ _ _ Hright Hf Hn).
          unfold Wf. right. simpl. left. reflexivity. }
        destruct (irebalance_rel K V ltb True order f t t' small' pi cs Wf Hnd Er Hf (or_introl eq_refl) Wc Wl Wr) as (R1 & R2 & R3 & R4).
        assert (HWf : incl Wf W).
        { intros x [<-|Hx].
          - pose proof (fp_in_frames (nid t) (f :: rest) Hlinks Hb f (or_introl eq_refl)) as Hin.
            apply HW. simpl in Hin. simpl. rewrite !in_app_iff in *. tauto.
          - apply HW. simpl. rewrite !in_app_iff in *. tauto. }
        apply (Hnext small' t'); auto.
        -- eapply stack_ok_frm with (W := Wf) (fr := fr); eauto.
           apply rest_fp_notin with (root := nid t); auto.
        -- eapply bl_mono; [exact HWf|]. apply (irebalance_bl order f t t' small' pi cs Wf Hnd Er Hf Wc Wl Wr).
        -- intros -> _ i k c Et'.
           destruct (irebalance_shape K V order f t t' small' pi cs Er Hf) as [cs' [Hu Hsh]].
           assert (Hroot : fp f = nid t).
           { unfold bottom_ok in Hb. simpl in Hb. congruence. }
           rewrite Hroot in Hu, Hf. rewrite find_eq, Nat.eqb_refl in Hf. inversion Hf; subst t.
           rewrite upd_eq in Hu. simpl nid in Hu. rewrite Nat.eqb_refl in Hu.
           assert (Ecs' : cs' = [(k, c)]) by (rewrite Et' in Hu; inversion Hu; reflexivity). subst cs'.
           apply HWf. eapply reb_single; eauto.
Qed.

End Low.

Arguments lnodes {K V}. Arguments lnodesl {K V}. Arguments ll {K}. Arguments bl {K V}.

(* RD_Demo.v — the hypotheses of [read_discipline] are inhabited by two DIFFERENT reachable states (vm_compute):
   a Search thread holds the root and is being granted the left leaf, while the right leaf — which it neither
   holds nor is granted — has different contents in the two states.  The theorem then says that the thread makes
   the same step in both. *)
From Coq Require Import List PeanoNat Lia.
From GB Require Import Model Inv Conc GI CIDef NoDeadlock LinDef Lin Frame ASM_Proof PCc_Proof PCb1_Proof RD_Base RD_Proof.
Import ListNotations.

Fixpoint rep {A} (n : nat) (l : list A) : list A := match n with 0 => [] | S m => l ++ rep m l end.

Definition progsA : list (tid * list (cop nat nat)) :=
  [ (1, [CInsert 10 100; CInsert 20 200; CInsert 30 300; CInsert 40 400; CInsert 50 500]); (2, [CSearch 10]) ].
Definition progsB : list (tid * list (cop nat nat)) :=
  [ (1, [CInsert 10 100; CInsert 20 200; CInsert 30 300; CInsert 40 444; CInsert 50 555]); (2, [CSearch 10]) ].
(* thread 1 runs its five inserts (16 steps, one root split), then thread 2 invokes Search, takes and releases the
   tree mutex, locks the root and waits for the left leaf *)
Definition sched : list tid := rep 16 [1] ++ [2; 2; 2].
Definition s1 := fst (exec Nat.ltb 4 (init_st progsA) sched).
Definition s2 := fst (exec Nat.ltb 4 (init_st progsB) sched).

Lemma base_conv (s : st nat nat) : ASM_Proof.Base nat nat Nat.ltb 4 s -> PCc_Proof.Base nat nat Nat.ltb 4 s.
Proof. exact (fun h => h). Qed.

Lemma demo_BigInv progs sched : NoDup (map fst progs) -> BigInv nat nat Nat.ltb 4 (fst (exec Nat.ltb 4 (init_st progs) sched)).
Proof.
  assert (He : Nat.even 4 = true) by reflexivity. assert (H4 : 4 <= 4) by lia.
  apply (BigInv_reachable nat nat Nat.ltb nat_SWO 4 He H4).
  - intros s s' me acq ev B E. exact (pc_ok2_step nat nat Nat.ltb nat_SWO 4 s s' me acq ev He H4 (base_conv s B) E).
  - intros s s' me acq ev B E. exact (pc_ok3_step nat nat Nat.ltb nat_SWO 4 s s' me acq ev He H4 (base_conv s B) E).
  - exact (all_pc_ok2_init nat nat).
  - exact (all_pc_ok3_init nat nat Nat.ltb).
Qed.

Definition th2 : thread nat nat := {| prog := [CSearch 10]; tpc := SeaWantChild (CSearch 10) 2 0; results := [] |}.

Theorem rd_demo_hypotheses :
  BigInv nat nat Nat.ltb 4 s1 /\ BigInv nat nat Nat.ltb 4 s2 /\
  get_thread 2 (ths s1) = Some th2 /\ get_thread 2 (ths s2) = Some th2 /\
  lk s1 = lk s2 /\ tm s1 = tm s2 /\ fresh s1 = fresh s2 /\
  footprint s1 2 (Some (Some 0)) = [2; 0] /\
  agree_on (footprint s1 2 (Some (Some 0))) (tr s1) (tr s2) /\
  node_view 1 (tr s1) <> node_view 1 (tr s2).
Proof.
  split; [apply demo_BigInv; vm_compute; repeat constructor; simpl; intuition congruence|].
  split; [apply demo_BigInv; vm_compute; repeat constructor; simpl; intuition congruence|].
  split; [vm_compute; reflexivity|]. split; [vm_compute; reflexivity|].
  split; [vm_compute; reflexivity|]. split; [vm_compute; reflexivity|]. split; [vm_compute; reflexivity|].
  split; [vm_compute; reflexivity|]. split.
  - intros x Hx. assert (E : footprint s1 2 (Some (Some 0)) = [2; 0]) by (vm_compute; reflexivity).
    rewrite E in Hx. destruct Hx as [<-|[<-|[]]]; vm_compute; reflexivity.
  - vm_compute. intro H. discriminate H.
Qed.

(* hence: the same step, with the same lock granted and the same events *)
Theorem rd_demo : forall s1' acq ev,
  cstep Nat.ltb 4 s1 2 = Stepped s1' acq ev ->
  exists s2', cstep Nat.ltb 4 s2 2 = Stepped s2' acq ev /\ get_thread 2 (ths s2') = get_thread 2 (ths s1').
Proof.
  intros s1' acq ev Hc.
  destruct rd_demo_hypotheses as (B1 & B2 & G1 & G2 & E1 & E2 & E3 & _ & Hag & _).
  assert (Hacq : acq = Some (Some 0)).
  { vm_compute in Hc. inversion Hc. reflexivity. }
  subst acq.
  assert (Hroot : pc_holds_T (tpc th2) = true \/ (exists o, tpc th2 = WantT o) -> nid (tr s1) = nid (tr s2)).
  { intros [H|[o H]]; discriminate H. }
  destruct (read_discipline nat nat Nat.ltb 4 eq_refl s1 s2 2 th2 s1' (Some (Some 0)) ev B1 B2 G1 G2 E1 E2 E3 Hroot Hc Hag)
    as (s2' & A & B & _).
  exists s2'. auto.
Qed.

(* ---- the root-pointer premise at WantT is necessary ---- *)
(* in s3 the root is the internal node 2; in s4 two deletes have collapsed the root back to the leaf 0; thread 2 has
   invoked Search and waits for the tree mutex in both; everything a thread may read without the mutex coincides *)
Definition progsC : list (tid * list (cop nat nat)) :=
  [ (1, [CInsert 10 100; CInsert 20 200; CInsert 30 300; CInsert 40 400; CInsert 50 500; CDelete 50; CDelete 40]); (2, [CSearch 10]) ].
Definition s3 := fst (exec Nat.ltb 4 (init_st progsA) (rep 16 [1] ++ [2])).
Definition s4 := fst (exec Nat.ltb 4 (init_st progsC) (rep 26 [1] ++ [2])).
Definition th3 : thread nat nat := {| prog := [CSearch 10]; tpc := WantT (CSearch 10); results := [] |}.

Theorem rd_root_premise_needed :
  BigInv nat nat Nat.ltb 4 s3 /\ BigInv nat nat Nat.ltb 4 s4 /\
  get_thread 2 (ths s3) = Some th3 /\ get_thread 2 (ths s4) = Some th3 /\
  lk s3 = lk s4 /\ tm s3 = tm s4 /\ fresh s3 = fresh s4 /\
  agree_on (footprint s3 2 (Some None)) (tr s3) (tr s4) /\
  nid (tr s3) <> nid (tr s4) /\
  exists s3' s4', cstep Nat.ltb 4 s3 2 = Stepped s3' (Some None) [] /\ cstep Nat.ltb 4 s4 2 = Stepped s4' (Some None) [] /\
    get_thread 2 (ths s3') <> get_thread 2 (ths s4').
Proof.
  split; [apply demo_BigInv; vm_compute; repeat constructor; simpl; intuition congruence|].
  split; [apply demo_BigInv; vm_compute; repeat constructor; simpl; intuition congruence|].
  split; [vm_compute; reflexivity|]. split; [vm_compute; reflexivity|].
  split; [vm_compute; reflexivity|]. split; [vm_compute; reflexivity|]. split; [vm_compute; reflexivity|].
  split.
  - intros x Hx. assert (E : footprint s3 2 (Some None) = []) by (vm_compute; reflexivity). rewrite E in Hx. destruct Hx.
  - split; [vm_compute; intro H; discriminate H|].
    do 2 eexists. split; [vm_compute; reflexivity|]. split; [vm_compute; reflexivity|].
    vm_compute. intro H. discriminate H.
Qed.

Print Assumptions rd_demo.
Print Assumptions rd_root_premise_needed.

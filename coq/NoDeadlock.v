(* NoDeadlock.v — deadlock freedom of the concurrent model, as a property of every state that satisfies
   the concurrent invariant (plus two executable facts about two Insert program counters, see [pc_ok2_b]).

   The argument is the classic one: a strict total order on lock resources such that every thread waits
   for a resource strictly above everything it holds.  The order used here: the tree mutex first, then the
   nodes in PRE-ORDER (position of the node's id in [ids (tr s)]): a parent comes before its children, a
   node's whole subtree before its right siblings, and a leaf before the next leaf of the chain. *)
From Coq Require Import List Bool PeanoNat Lia Permutation.
From GB Require Import Conc GI LockInv LockProof CInv CIDef.
Import ListNotations.
Set Implicit Arguments.

(* ------------------------------------------------------------------------------------------------ *)
(* position in a list, and "a occurs strictly before an occurrence of b"                              *)
(* ------------------------------------------------------------------------------------------------ *)
Fixpoint idx (x : nat) (l : list nat) : nat :=
  match l with [] => 0 | y :: r => if y =? x then 0 else S (idx x r) end.

Fixpoint before (a b : nat) (l : list nat) : Prop :=
  match l with [] => False | x :: r => (x = a /\ In b r) \/ before a b r end.

Lemma idx_le : forall x l, idx x l <= length l.
Proof. intros x l. induction l as [|y r IH]; simpl; [lia|]. destruct (y =? x); lia. Qed.

Lemma before_in : forall a b l, before a b l -> In a l /\ In b l.
Proof.
  intros a b l. induction l as [|x r IH]; simpl; [tauto|].
  intros [[Hx Hb]|H]; [tauto|]. apply IH in H. tauto.
Qed.

Lemma before_app : forall a b l1 l2,
  before a b (l1 ++ l2) <-> before a b l1 \/ (In a l1 /\ In b l2) \/ before a b l2.
Proof.
  intros a b l1 l2. induction l1 as [|x l1 IH]; simpl.
  - tauto.
  - rewrite IH, in_app_iff. tauto.
Qed.

Lemma before_idx : forall a b l, NoDup l -> before a b l -> idx a l < idx b l.
Proof.
  intros a b l. induction l as [|x r IH]; simpl; intros ND H; [contradiction|].
  inversion ND as [|x' r' Hnx NDr]; subst.
  destruct H as [[Hx Hb]|H].
  - subst x. rewrite Nat.eqb_refl. destruct (a =? b) eqn:E.
    + apply Nat.eqb_eq in E. subst. contradiction.
    + lia.
  - destruct (before_in _ _ _ H) as [Ha Hb].
    destruct (x =? a) eqn:E1; [apply Nat.eqb_eq in E1; subst; contradiction|].
    destruct (x =? b) eqn:E2; [apply Nat.eqb_eq in E2; subst; contradiction|].
    apply IH in H; [lia|assumption].
Qed.

Lemma before_flat_map : forall (A : Type) (f : A -> list nat) a b e l,
  In e l -> before a b (f e) -> before a b (flat_map f l).
Proof.
  intros A f a b e l Hin H. apply in_split in Hin. destruct Hin as (l1 & l2 & ->).
  rewrite flat_map_app. simpl. apply before_app. right. right. apply before_app. left. exact H.
Qed.

(* ------------------------------------------------------------------------------------------------ *)
(* pre-order positions in a tree                                                                      *)
(* ------------------------------------------------------------------------------------------------ *)
Section TreeOrder.
Variables (K V : Type).
Notation itree := (itree K V).

Lemma itree_ind2 : forall (P : itree -> Prop),
  (forall i nx es, P (ILeaf i nx es)) ->
  (forall i cs, Forall (fun c => P (snd c)) cs -> P (INode i cs)) ->
  forall t, P t.
Proof.
  intros P HL HN. fix IH 1. intros [i nx es|i cs]; [apply HL|]. apply HN.
  induction cs as [|[k c] r IHr]; constructor; [apply IH|apply IHr].
Qed.

Definition find_list (x : id) : list (K * itree) -> option itree :=
  fix go cs := match cs with [] => None | (_, c) :: r =>
                 match find x c with Some y => Some y | None => go r end end.

Lemma find_node : forall x i (cs : list (K * itree)),
  find x (INode i cs) = if i =? x then Some (INode i cs) else find_list x cs.
Proof. reflexivity. Qed.

Lemma find_leaf : forall x i nx (es : list (K * V)),
  find x (ILeaf i nx es) = if i =? x then Some (ILeaf i nx es) else None.
Proof. reflexivity. Qed.

Lemma find_list_some : forall x cs n,
  find_list x cs = Some n -> exists k c, In (k, c) cs /\ find x c = Some n.
Proof.
  intros x cs n. induction cs as [|[k c] r IH]; simpl; [discriminate|].
  destruct (find x c) as [y|] eqn:E.
  - intros H. inversion H; subst. exists k, c. auto.
  - intros H. apply IH in H. destruct H as (k' & c' & Hin & Hf). exists k', c'. auto.
Qed.

Lemma nid_in_ids : forall t : itree, In (nid t) (ids t).
Proof. intros [i nx es|i cs]; simpl; auto. Qed.

Lemma find_nid : forall x (t n : itree), find x t = Some n -> nid n = x.
Proof.
  intros x t. induction t as [i nx es|i cs IH] using itree_ind2; intros n H.
  - rewrite find_leaf in H. destruct (i =? x) eqn:E; [|discriminate].
    inversion H; subst. simpl. apply Nat.eqb_eq. exact E.
  - rewrite find_node in H. destruct (i =? x) eqn:E.
    + inversion H; subst. simpl. apply Nat.eqb_eq. exact E.
    + apply find_list_some in H. destruct H as (k & c & Hin & Hf).
      rewrite Forall_forall in IH. apply (IH (k, c) Hin). exact Hf.
Qed.

(* the ids of a subtree keep their relative order in the whole tree *)
Lemma find_before : forall x a b (t n : itree),
  find x t = Some n -> before a b (ids n) -> before a b (ids t).
Proof.
  intros x a b t. induction t as [i nx es|i cs IH] using itree_ind2; intros n H Hb.
  - rewrite find_leaf in H. destruct (i =? x); [|discriminate]. inversion H; subst. exact Hb.
  - rewrite find_node in H. destruct (i =? x).
    + inversion H; subst. exact Hb.
    + apply find_list_some in H. destruct H as (k & c & Hin & Hf).
      rewrite Forall_forall in IH. specialize (IH (k, c) Hin n Hf Hb).
      simpl. right. eapply before_flat_map with (e := (k, c)); eauto.
Qed.

(* F1: a parent comes before each of its children *)
Lemma child_lt : forall (t : itree) p i cs k c,
  NoDup (ids t) -> find p t = Some (INode i cs) -> In (k, c) cs ->
  idx p (ids t) < idx (nid c) (ids t).
Proof.
  intros t p i cs k c ND Hf Hin. apply before_idx; [exact ND|].
  pose proof (find_nid _ _ Hf) as Hp. simpl in Hp. subst i.
  eapply find_before; [exact Hf|]. simpl. left. split; [reflexivity|].
  apply in_flat_map. exists (k, c). split; [exact Hin|]. apply nid_in_ids.
Qed.

Lemma before_siblings : forall (cs : list (K * itree)) j j' k1 c1 k2 c2,
  nth_error cs j = Some (k1, c1) -> nth_error cs j' = Some (k2, c2) -> j < j' ->
  before (nid c1) (nid c2) (flat_map (fun c => ids (snd c)) cs).
Proof.
  induction cs as [|[k c] r IH]; intros j j' k1 c1 k2 c2 H1 H2 Hlt.
  - destruct j; discriminate.
  - destruct j' as [|j']; [lia|]. simpl in H2. simpl. apply before_app.
    destruct j as [|j]; simpl in H1.
    + inversion H1; subst. right. left. split; [apply nid_in_ids|].
      apply in_flat_map. exists (k2, c2). split; [eapply nth_error_In; eauto|apply nid_in_ids].
    + right. right. eapply IH; eauto. lia.
Qed.

(* F2: a node comes before its right siblings *)
Lemma sibling_lt : forall (t : itree) p i cs j j' k1 c1 k2 c2,
  NoDup (ids t) -> find p t = Some (INode i cs) ->
  nth_error cs j = Some (k1, c1) -> nth_error cs j' = Some (k2, c2) -> j < j' ->
  idx (nid c1) (ids t) < idx (nid c2) (ids t).
Proof.
  intros t p i cs j j' k1 c1 k2 c2 ND Hf H1 H2 Hlt. apply before_idx; [exact ND|].
  eapply find_before; [exact Hf|]. simpl. right. eapply before_siblings; eauto.
Qed.

(* c immediately followed by r among the children *)
Fixpoint adj_b (c r : id) (cs : list (K * itree)) : bool :=
  match cs with
  | (_, a) :: (((_, b) :: _) as tl) => ((nid a =? c) && (nid b =? r)) || adj_b c r tl
  | _ => false
  end.

Lemma adj_before : forall c r (cs : list (K * itree)),
  adj_b c r cs = true -> before c r (flat_map (fun c => ids (snd c)) cs).
Proof.
  intros c r cs. induction cs as [|[k a] tl IH]; [discriminate|].
  destruct tl as [|[k2 b] tl']; [discriminate|].
  intros H. change (((nid a =? c) && (nid b =? r)) || adj_b c r ((k2, b) :: tl') = true) in H.
  change (before c r (ids a ++ flat_map (fun c => ids (snd c)) ((k2, b) :: tl'))).
  apply before_app. apply orb_true_iff in H. destruct H as [H|H].
  - apply andb_true_iff in H. destruct H as [Ha Hb].
    apply Nat.eqb_eq in Ha. apply Nat.eqb_eq in Hb. subst.
    right. left. split; [apply nid_in_ids|]. simpl. apply in_or_app. left. apply nid_in_ids.
  - right. right. apply IH. exact H.
Qed.

(* leaves: the chain order is the pre-order restricted to the leaves *)
Lemma leaf_ids_incl : forall (t : itree) a, In a (map fst (leaf_links t)) -> In a (ids t).
Proof.
  intros t. induction t as [i nx es|i cs IH] using itree_ind2; intros a H.
  - exact H.
  - simpl in *. right. induction IH as [|[k c] r Hc Hr IHr]; simpl in *; [contradiction|].
    rewrite map_app, in_app_iff in H. apply in_or_app. destruct H as [H|H]; [left; apply Hc; exact H|right; auto].
Qed.

Lemma leaf_ids_incl_list : forall (cs : list (K * itree)) a,
  In a (map fst (flat_map (fun c => leaf_links (snd c)) cs)) -> In a (flat_map (fun c => ids (snd c)) cs).
Proof.
  induction cs as [|[k c] r IH]; simpl; intros a H; [contradiction|].
  rewrite map_app, in_app_iff in H. apply in_or_app. destruct H as [H|H]; [left; apply leaf_ids_incl; exact H|right; auto].
Qed.

Lemma leaf_before : forall (t : itree) a b, before a b (map fst (leaf_links t)) -> before a b (ids t).
Proof.
  intros t. induction t as [i nx es|i cs IH] using itree_ind2; intros a b H.
  - simpl in H. tauto.
  - simpl in *. right. induction IH as [|[k c] r Hc Hr IHr]; simpl in *; [contradiction|].
    rewrite map_app in H. apply before_app in H. apply before_app.
    destruct H as [H|[[H1 H2]|H]].
    + left. apply Hc. exact H.
    + right. left. split; [apply leaf_ids_incl; exact H1|apply leaf_ids_incl_list; exact H2].
    + right. right. apply IHr. exact H.
Qed.

Lemma find_leaf_in : forall x (t : itree) i nx es,
  find x t = Some (ILeaf i nx es) -> In (i, nx) (leaf_links t).
Proof.
  intros x t. induction t as [i0 nx0 es0|i0 cs IH] using itree_ind2; intros i nx es H.
  - rewrite find_leaf in H. destruct (i0 =? x); [|discriminate]. inversion H; subst. simpl. auto.
  - rewrite find_node in H. destruct (i0 =? x); [discriminate|].
    apply find_list_some in H. destruct H as (k & c & Hin & Hf).
    rewrite Forall_forall in IH. specialize (IH (k, c) Hin i nx es Hf).
    simpl. apply in_flat_map. exists (k, c). auto.
Qed.

Lemma chain_next : forall (m1 m2 : list (id * option id)) i nxt,
  chain_ok (m1 ++ (i, Some nxt) :: m2) -> exists nx' m2', m2 = (nxt, nx') :: m2'.
Proof.
  induction m1 as [|[j nj] m1 IH]; intros m2 i nxt H.
  - simpl in H. destruct m2 as [|[j' nj'] m2']; [discriminate|].
    destruct H as [H _]. inversion H; subst. eauto.
  - apply (IH m2 i nxt). destruct m1 as [|[j2 nj2] m1']; simpl in *; tauto.
Qed.

(* F3: a leaf comes before the leaf its next link names *)
Lemma leaf_next_lt : forall (t : itree) leaf i nxt es,
  NoDup (ids t) -> chain_ok (leaf_links t) -> find leaf t = Some (ILeaf i (Some nxt) es) ->
  idx leaf (ids t) < idx nxt (ids t).
Proof.
  intros t leaf i nxt es ND Hch Hf.
  pose proof (find_nid _ _ Hf) as Hi. simpl in Hi. subst i.
  apply before_idx; [exact ND|]. apply leaf_before.
  apply find_leaf_in in Hf. apply in_split in Hf. destruct Hf as (m1 & m2 & E).
  rewrite E in Hch. destruct (chain_next _ _ _ _ Hch) as (nx' & m2' & ->).
  rewrite E, map_app. apply before_app. right. right. simpl. left. auto.
Qed.

End TreeOrder.

(* ------------------------------------------------------------------------------------------------ *)
(* the strengthening of the program-counter invariant                                                 *)
(* ------------------------------------------------------------------------------------------------ *)
Section Strengthen.
Variables (K V : Type) (ltb : K -> K -> bool).
Notation itree := (itree K V).
Notation st := (st K V).
Notation pc := (pc K V).

(* the two facts [pc_ok_b] lacks:
   - at [InsWantRootRight o l r] the root has exactly two children, with ids l and r in this order
     (the root was just split; the new root is reachable only under the tree mutex, which the thread holds);
   - at [InsWantSplitRight o p c r] node p is internal and r is the child immediately right of c
     (c was just split under p; p's child list changes only under p's lock, which the thread holds). *)
Definition pc_ok2_b (t : itree) (p : pc) : bool :=
  match p with
  | InsWantRootRight _ l r =>
    match t with
    | INode _ [(_, a); (_, b)] => (nid a =? l) && (nid b =? r)
    | _ => false end
  | InsWantSplitRight _ pn c r =>
    match find pn t with
    | Some (INode _ cs) => adj_b c r cs
    | _ => false end
  | _ => true
  end.

Definition all_pc_ok2_b (s : st) : bool := forallb (fun e => pc_ok2_b (tr s) (tpc (snd e))) (ths s).

Definition CI2 (order : nat) (s : st) : Prop := CI ltb order s /\ all_pc_ok2_b s = true.

End Strengthen.

(* ------------------------------------------------------------------------------------------------ *)
(* Delete stacks                                                                                      *)
(* ------------------------------------------------------------------------------------------------ *)
Section Frames.
Variables (K V : Type).
Notation itree := (itree K V).

Lemma child_id_ok : forall (t : itree) p j y,
  child_id t p j = Ok y ->
  exists i cs k c, find p t = Some (INode i cs) /\ nth_error cs j = Some (k, c) /\ nid c = y.
Proof.
  intros t p j y H. unfold child_id in H.
  destruct (find p t) as [[i nx es|i cs]|]; try discriminate.
  unfold get_nth in H. destruct (nth_error cs j) as [[k c]|] eqn:E; simpl in H; [|discriminate].
  inversion H; subst. exists i, cs, k, c. auto.
Qed.

Lemma frames_ok_cons : forall (t : itree) f rest,
  frames_ok_b t (f :: rest) = true ->
  exists i cs, find (fp f) t = Some (INode i cs) /\
    (forall x, fl f = Some x -> 0 < fidx f /\ exists k c, nth_error cs (fidx f - 1) = Some (k, c) /\ nid c = x) /\
    (forall x, fc f = Some x -> exists k c, nth_error cs (fidx f) = Some (k, c) /\ nid c = x) /\
    (match rest with [] => nid t = fp f | g :: _ => fc g = Some (fp f) end) /\
    frames_ok_b t rest = true.
Proof.
  intros t f rest H. simpl in H.
  destruct (find (fp f) t) as [[i nx es|i cs]|]; try discriminate.
  apply andb_true_iff in H. destruct H as [H HE].
  apply andb_true_iff in H. destruct H as [H HD].
  apply andb_true_iff in H. destruct H as [H HC].
  apply andb_true_iff in H. destruct H as [HA HB].
  exists i, cs. split; [reflexivity|]. split; [|split; [|split; [|exact HE]]].
  - intros x Hx. rewrite Hx in HB.
    apply andb_true_iff in HB. destruct HB as [HB1 HB2]. apply Nat.ltb_lt in HB1.
    split; [exact HB1|].
    destruct (nth_error cs (fidx f - 1)) as [[k c]|]; [|discriminate].
    apply Nat.eqb_eq in HB2. eauto.
  - intros x Hx. rewrite Hx in HC.
    destruct (nth_error cs (fidx f)) as [[k c]|]; [|discriminate].
    apply Nat.eqb_eq in HC. eauto.
  - destruct rest as [|g rest'].
    + apply Nat.eqb_eq in HD. exact HD.
    + destruct (fc g) as [x|]; [|discriminate]. apply Nat.eqb_eq in HD. subst. reflexivity.
Qed.

(* everything held by the activations below the top one is at or before the top one's node *)
Lemma frames_below : forall (t : itree), NoDup (ids t) ->
  forall stk f, frames_ok_b t (f :: stk) = true ->
  forall x, x = nid t \/ In x (flat_map fkids stk) -> idx x (ids t) <= idx (fp f) (ids t).
Proof.
  intros t ND stk. induction stk as [|g rest IH]; intros f H x Hx.
  - destruct (frames_ok_cons _ _ _ H) as (i & cs & Hf & _ & _ & Hr & _).
    destruct Hx as [Hx|[]]. subst x. rewrite Hr. lia.
  - destruct (frames_ok_cons _ _ _ H) as (i & cs & Hf & _ & _ & Hg & Hrest).
    destruct (frames_ok_cons _ _ _ Hrest) as (gi & gcs & Hgf & Hgl & Hgc & _ & _).
    destruct (Hgc _ Hg) as (k & c & Hnth & Hc).
    assert (Hlt : idx (fp g) (ids t) < idx (fp f) (ids t)).
    { rewrite <- Hc. eapply child_lt; eauto. eapply nth_error_In; eauto. }
    simpl in Hx. rewrite in_app_iff in Hx.
    destruct Hx as [Hx|[Hx|Hx]].
    + specialize (IH g Hrest x (or_introl Hx)). lia.
    + unfold fkids in Hx. rewrite in_app_iff in Hx. destruct Hx as [Hx|Hx].
      * destruct (fl g) as [y|] eqn:El; [|destruct Hx]. destruct Hx as [Hx|[]]. subst y.
        destruct (Hgl x eq_refl) as (Hpos & k' & c' & Hnth' & Hc').
        rewrite <- Hc, <- Hc'. apply Nat.lt_le_incl.
        eapply sibling_lt; eauto. lia.
      * rewrite Hg in Hx. destruct Hx as [Hx|[]]. subst x. lia.
    + specialize (IH g Hrest x (or_intror Hx)). lia.
Qed.

(* the generic step for Delete: the awaited child of the top activation's node is after everything held,
   provided it is after what the top activation itself holds *)
Lemma del_lt : forall (t : itree) f rest j y,
  NoDup (ids t) -> frames_ok_b t (f :: rest) = true -> bottom_ok (nid t) (f :: rest) ->
  child_id t (fp f) j = Ok y ->
  (forall x, In x (fkids f) -> idx x (ids t) < idx y (ids t)) ->
  forall x, In x (frames_nodes (f :: rest)) -> idx x (ids t) < idx y (ids t).
Proof.
  intros t f rest j y ND Hok Hbot Hc Htop x Hx.
  rewrite (@frames_nodes_bottom (nid t)) in Hx; [|discriminate|exact Hbot].
  destruct (child_id_ok _ _ _ Hc) as (i & cs & k & c & Hf & Hnth & Hy).
  assert (Hlt : idx (fp f) (ids t) < idx y (ids t)).
  { rewrite <- Hy. eapply child_lt; eauto. eapply nth_error_In; eauto. }
  simpl in Hx. rewrite in_app_iff in Hx. destruct Hx as [Hx|[Hx|Hx]].
  - pose proof (@frames_below t ND rest f Hok x (or_introl (eq_sym Hx))). lia.
  - apply Htop. exact Hx.
  - pose proof (@frames_below t ND rest f Hok x (or_intror Hx)). lia.
Qed.

(* a recorded left sibling / child of the top activation, against an awaited child further right *)
Lemma top_kid_lt : forall (t : itree) f rest j y,
  NoDup (ids t) -> frames_ok_b t (f :: rest) = true ->
  child_id t (fp f) j = Ok y ->
  (forall x, fl f = Some x -> fidx f - 1 < j) ->
  (forall x, fc f = Some x -> fidx f < j) ->
  forall x, In x (fkids f) -> idx x (ids t) < idx y (ids t).
Proof.
  intros t f rest j y ND Hok Hc Hl Hcc x Hx.
  destruct (child_id_ok _ _ _ Hc) as (i & cs & k & c & Hf & Hnth & Hy).
  destruct (frames_ok_cons _ _ _ Hok) as (i' & cs' & Hf' & Hfl & Hfc & _ & _).
  rewrite Hf in Hf'. inversion Hf'; subst i' cs'. clear Hf'.
  unfold fkids in Hx. rewrite in_app_iff in Hx. destruct Hx as [Hx|Hx].
  - destruct (fl f) as [z|] eqn:El; [|destruct Hx]. destruct Hx as [Hx|[]]. subst z.
    destruct (Hfl x eq_refl) as (_ & k' & c' & Hnth' & Hc').
    rewrite <- Hy, <- Hc'. eapply sibling_lt; eauto.
  - destruct (fc f) as [z|] eqn:Ec; [|destruct Hx]. destruct Hx as [Hx|[]]. subst z.
    destruct (Hfc x eq_refl) as (k' & c' & Hnth' & Hc').
    rewrite <- Hy, <- Hc'. eapply sibling_lt; eauto.
Qed.

End Frames.

(* ------------------------------------------------------------------------------------------------ *)
(* the lock order and the theorem                                                                     *)
(* ------------------------------------------------------------------------------------------------ *)
Section Main.
Variables (K V : Type) (ltb : K -> K -> bool).
Notation itree := (itree K V).
Notation st := (st K V).
Notation pc := (pc K V).
Notation thread := (thread K V).

(* rank of a lock resource (None = the tree mutex): the tree mutex first, then the nodes in pre-order *)
Definition rk (s : st) (r : option id) : nat :=
  match r with None => 0 | Some x => S (idx x (ids (tr s))) end.

(* a thread resting at p holds resource r *)
Definition holds (p : pc) (r : option id) : Prop :=
  match r with None => pc_holds_T p = true | Some x => In x (pc_nodes p) end.

Lemma rk_bound : forall s r, rk s r <= S (length (ids (tr s))).
Proof. intros s [x|]; simpl; [|lia]. apply le_n_S. apply idx_le. Qed.

Lemma get_thread_in : forall t (l : list (tid * thread)) th, get_thread t l = Some th -> In (t, th) l.
Proof.
  intros t l th H. unfold get_thread in H.
  match type of H with match ?X with _ => _ end = _ => destruct X as [[t' th']|] eqn:E end; [|discriminate].
  inversion H; subst. apply find_some in E. destruct E as [Hin Heq]. simpl in Heq.
  apply Nat.eqb_eq in Heq. subst. exact Hin.
Qed.

(* Lemma A: a thread waits strictly above everything it holds *)
Lemma waits_above : forall order (s : st) t th r r',
  CI2 ltb order s -> get_thread t (ths s) = Some th ->
  target s (tpc th) = Ok (Some r') -> holds (tpc th) r -> rk s r < rk s r'.
Proof.
  intros order s t th r r' [[HGI [[HLI Hwf] Hpc]] Hpc2] Hg Ht Hh.
  destruct HGI as (ND & _ & _ & _ & _ & Hch).
  specialize (Hwf t th Hg).
  pose proof (get_thread_in _ _ Hg) as Hin.
  unfold all_pc_ok_b in Hpc. rewrite forallb_forall in Hpc. specialize (Hpc _ Hin). simpl in Hpc.
  unfold all_pc_ok2_b in Hpc2. rewrite forallb_forall in Hpc2. specialize (Hpc2 _ Hin). simpl in Hpc2.
  clear Hin Hg HLI.
  remember (tr s) as T eqn:ET.
  assert (Hgoal : forall x y, r = Some x -> r' = Some y -> idx x (ids T) < idx y (ids T) -> rk s r < rk s r').
  { intros x y -> ->. simpl. rewrite <- ET. lia. }
  assert (HgoalT : forall y, r = None -> r' = Some y -> rk s r < rk s r').
  { intros y -> ->. simpl. lia. }
  destruct (tpc th) as [ |o|o r0|o l r0|o p c index|o p c r0|o leaf mode index|o p c|o stk|o stk|o stk|leaf i n acc|leaf nxt n acc];
    simpl in Ht, Hh, Hpc, Hpc2, Hwf.
  - (* Idle *) discriminate.
  - (* WantT *) destruct r as [x|]; simpl in Hh; [contradiction|discriminate].
  - (* WantRoot *) inversion Ht; subst r'. destruct r as [x|]; simpl in Hh; [contradiction|].
    eapply HgoalT; eauto.
  - (* InsWantRootRight *) inversion Ht; subst r'. destruct r as [x|]; simpl in Hh; [|eapply HgoalT; eauto].
    destruct Hh as [Hh|[]]. subst x.
    destruct T as [|i cs]; [discriminate|].
    destruct cs as [|[k1 a] [|[k2 b] [|]]]; try discriminate.
    apply andb_true_iff in Hpc2. destruct Hpc2 as [Ha Hb].
    apply Nat.eqb_eq in Ha. apply Nat.eqb_eq in Hb. subst l r0.
    eapply Hgoal; [reflexivity|reflexivity|].
    eapply sibling_lt with (p := i) (i := i) (cs := [(k1, a); (k2, b)]) (j := 0) (j' := 1); [exact ND| |reflexivity|reflexivity|lia].
    rewrite find_node. rewrite Nat.eqb_refl. reflexivity.
  - (* InsWantChild *) inversion Ht; subst r'. destruct r as [x|]; simpl in Hh; [|discriminate].
    destruct Hh as [Hh|[]]. subst x.
    destruct (find p T) as [[|i cs]|] eqn:Ef; try discriminate.
    apply andb_true_iff in Hpc. destruct Hpc as [Hpc _].
    apply andb_true_iff in Hpc. destruct Hpc as [_ Hpc].
    destruct (nth_error cs index) as [[k ch]|] eqn:En; [|discriminate].
    apply Nat.eqb_eq in Hpc. subst c.
    eapply Hgoal; [reflexivity|reflexivity|].
    eapply child_lt; eauto. eapply nth_error_In; eauto.
  - (* InsWantSplitRight *) inversion Ht; subst r'. destruct r as [x|]; simpl in Hh; [|discriminate].
    destruct (find p T) as [[|i cs]|] eqn:Ef; try discriminate.
    apply adj_before in Hpc2.
    pose proof (find_nid _ _ Ef) as Hi. simpl in Hi. subst i.
    eapply Hgoal; [reflexivity|reflexivity|]. apply before_idx; [exact ND|].
    eapply find_before; [exact Ef|]. simpl.
    destruct Hh as [Hh|[Hh|[]]]; subst x.
    + left. split; [reflexivity|]. apply before_in in Hpc2. tauto.
    + right. exact Hpc2.
  - (* UpdCallback *) discriminate.
  - (* SeaWantChild *) inversion Ht; subst r'. destruct r as [x|]; simpl in Hh; [|discriminate].
    destruct Hh as [Hh|[]]. subst x.
    destruct (find p T) as [[|i cs]|] eqn:Ef; try discriminate.
    apply existsb_exists in Hpc. destruct Hpc as [[k ch] [Hin Hc]]. simpl in Hc.
    apply Nat.eqb_eq in Hc. subst c.
    eapply Hgoal; [reflexivity|reflexivity|]. eapply child_lt; eauto.
  - (* DelWantLeft *)
    destruct stk as [|f rest]; [discriminate|].
    destruct (child_id (tr s) (fp f) (fidx f - 1)) as [y|] eqn:Ec; simpl in Ht; [|discriminate].
    inversion Ht; subst r'. rewrite <- ET in Ec.
    destruct r as [x|]; simpl in Hh; [|eapply HgoalT; eauto].
    eapply Hgoal; [reflexivity|reflexivity|].
    destruct Hwf as [Hbot [Hfl Hfc]].
    eapply del_lt; eauto.
    intros z Hz. unfold fkids in Hz. rewrite Hfl, Hfc in Hz. destruct Hz.
  - (* DelWantChild *)
    destruct stk as [|f rest]; [discriminate|].
    destruct (child_id (tr s) (fp f) (fidx f)) as [y|] eqn:Ec; simpl in Ht; [|discriminate].
    inversion Ht; subst r'. rewrite <- ET in Ec.
    destruct r as [x|]; simpl in Hh; [|eapply HgoalT; eauto].
    eapply Hgoal; [reflexivity|reflexivity|].
    destruct Hwf as [Hbot Hfc].
    eapply del_lt; eauto.
    eapply top_kid_lt; eauto.
    + intros z Hz. destruct (frames_ok_cons _ _ _ Hpc) as (i0 & cs0 & _ & Hfl & _). destruct (Hfl z Hz). lia.
    + intros z Hz. congruence.
  - (* DelWantRight *)
    destruct stk as [|f rest]; [discriminate|].
    destruct (child_id (tr s) (fp f) (fidx f + 1)) as [y|] eqn:Ec; simpl in Ht; [|discriminate].
    inversion Ht; subst r'. rewrite <- ET in Ec.
    destruct r as [x|]; simpl in Hh; [|eapply HgoalT; eauto].
    eapply Hgoal; [reflexivity|reflexivity|].
    destruct Hwf as [Hbot _].
    apply andb_true_iff in Hpc. destruct Hpc as [Hpc _].
    eapply del_lt; eauto.
    eapply top_kid_lt; eauto; intros; lia.
  - (* CurRest *) discriminate.
  - (* CurWantNext *) inversion Ht; subst r'. destruct r as [x|]; simpl in Hh; [|discriminate].
    destruct Hh as [Hh|[]]. subst x.
    destruct (find leaf T) as [[i0 [x0|] es|]|] eqn:Ef; try discriminate.
    apply Nat.eqb_eq in Hpc. subst x0.
    eapply Hgoal; [reflexivity|reflexivity|]. eapply leaf_next_lt; eauto.
Qed.

(* Lemma B: a lock that is not free is held by a thread of the state *)
Lemma holder_exists : forall (s : st) r,
  lock_inv s -> is_free s (Some r) = false ->
  exists t th, get_thread t (ths s) = Some th /\ holds (tpc th) r.
Proof.
  intros s r (_ & _ & Hlk & Htm & Hth) H. destruct r as [x|]; simpl in H.
  - destruct (holder x (lk s)) as [t|] eqn:E; [|discriminate]. unfold holder in E.
    match type of E with match ?X with _ => _ end = _ => destruct X as [[x' t']|] eqn:Ef end; [|discriminate].
    inversion E; subst. apply find_some in Ef. destruct Ef as [Hin Heq]. simpl in Heq.
    apply Nat.eqb_eq in Heq. subst x'.
    destruct (Hlk _ _ Hin) as [th Hg]. exists t, th. split; [exact Hg|].
    destruct (Hth _ _ Hg) as (_ & HP & _). simpl.
    eapply Permutation_in; [exact HP|]. apply In_held_by. exact Hin.
  - destruct (tm s) as [t|] eqn:E; [|discriminate].
    destruct (Htm _ eq_refl) as [th Hg]. exists t, th. split; [exact Hg|].
    destruct (Hth _ _ Hg) as (_ & _ & HT). simpl. apply HT. reflexivity.
Qed.

(* a thread that holds something has not finished *)
Lemma holds_unfinished : forall (s : st) t th r,
  get_thread t (ths s) = Some th -> holds (tpc th) r -> unfinished s t = true.
Proof.
  intros s t th r Hg Hh. unfold unfinished. rewrite Hg.
  destruct (tpc th); try reflexivity.
  destruct r; simpl in Hh; [contradiction|discriminate].
Qed.

Lemma enabled_eq : forall order (s : st) t th,
  get_thread t (ths s) = Some th -> unfinished s t = true ->
  enabled order s t = match target s (tpc th) with Ok tg => is_free s tg | Panic _ => true end.
Proof.
  intros order s t th Hg Hu. unfold unfinished in Hu. unfold enabled. rewrite Hg in *.
  destruct (tpc th); try reflexivity.
  destruct (prog th); [discriminate|reflexivity].
Qed.

(* an unfinished thread that is not enabled waits for a lock that is held *)
Lemma stuck_target : forall order (s : st) t th,
  get_thread t (ths s) = Some th -> unfinished s t = true -> enabled order s t = false ->
  exists r, target s (tpc th) = Ok (Some r) /\ is_free s (Some r) = false.
Proof.
  intros order s t th Hg Hu He. rewrite (enabled_eq order _ _ Hg Hu) in He.
  destruct (target s (tpc th)) as [[r|]|]; try discriminate.
  exists r. auto.
Qed.

(* if nobody is enabled, stuck threads wait at arbitrarily high ranks *)
Lemma climb : forall order (s : st),
  CI2 ltb order s ->
  (forall e, In e (ths s) -> enabled order s (fst e) = false) ->
  (exists t, unfinished s t = true) ->
  forall n, exists t th r,
    get_thread t (ths s) = Some th /\ target s (tpc th) = Ok (Some r) /\
    is_free s (Some r) = false /\ n <= rk s r.
Proof.
  intros order s HCI Hno [t0 Hu0] n.
  assert (Hstuck : forall t th, get_thread t (ths s) = Some th -> unfinished s t = true ->
            exists r, target s (tpc th) = Ok (Some r) /\ is_free s (Some r) = false).
  { intros t th Hg Hu. eapply stuck_target; eauto.
    apply (Hno (t, th)). apply get_thread_in. exact Hg. }
  induction n as [|n IH].
  - unfold unfinished in Hu0. destruct (get_thread t0 (ths s)) as [th0|] eqn:Hg0; [|discriminate].
    assert (Hu : unfinished s t0 = true) by (unfold unfinished; rewrite Hg0; exact Hu0).
    destruct (Hstuck _ _ Hg0 Hu) as (r & Ht & Hf).
    exists t0, th0, r. repeat split; auto. lia.
  - destruct IH as (t & th & r & Hg & Ht & Hf & Hn).
    assert (HL : lock_inv s).
    { destruct HCI as [[_ [[HL _] _]] _]. exact HL. }
    destruct (holder_exists _ HL Hf) as (t' & th' & Hg' & Hh').
    pose proof (holds_unfinished _ _ _ Hg' Hh') as Hu'.
    destruct (Hstuck _ _ Hg' Hu') as (r' & Ht' & Hf').
    pose proof (@waits_above order s t' th' r r' HCI Hg' Ht' Hh') as Hlt.
    exists t', th', r'. repeat split; auto. lia.
Qed.

Theorem ci2_no_deadlock : forall (order : nat) (s : st),
  CI2 ltb order s ->
  (exists t, unfinished s t = true) ->
  exists t, enabled order s t = true.
Proof.
  intros order s HCI Hu.
  destruct (existsb (fun e : tid * thread => enabled order s (fst e)) (ths s)) eqn:E.
  - apply existsb_exists in E. destruct E as [e [_ He]]. exists (fst e). exact He.
  - exfalso.
    assert (Hno : forall e, In e (ths s) -> enabled order s (fst e) = false).
    { intros e Hin. destruct (enabled order s (fst e)) eqn:E2; [|reflexivity].
      assert (X : existsb (fun e : tid * thread => enabled order s (fst e)) (ths s) = true)
        by (apply existsb_exists; exists e; auto).
      congruence. }
    destruct (climb HCI Hno Hu (S (S (length (ids (tr s)))))) as (t & th & r & _ & _ & _ & Hn).
    pose proof (rk_bound s r). lia.
Qed.

End Main.

Print Assumptions ci2_no_deadlock.

(* the statement asked for, with the strengthening as an explicit extra hypothesis
   (note: [enabled] of Conc.v takes no [ltb] argument) *)
Theorem ci_no_deadlock : forall (K V : Type) (ltb : K -> K -> bool) (order : nat) (s : st K V),
  CI ltb order s -> all_pc_ok2_b s = true ->
  (exists t, unfinished s t = true) ->
  exists t, enabled order s t = true.
Proof. intros K V ltb order s H1 H2. apply (@ci2_no_deadlock K V ltb order s). split; assumption. Qed.

Print Assumptions ci_no_deadlock.

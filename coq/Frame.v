(* Frame.v — definitions for the write-discipline theorem of the concurrent model (C07 model side, C05):
   a node's own fields, and what it means for a step to leave them alone.  Definitions only. *)
From Coq Require Import List Bool PeanoNat.
From GB Require Export Conc GI LockInv.
Import ListNotations.
Set Implicit Arguments.

Section Frame.
Variables (K V : Type).
Notation itree := (itree K V).
Notation st := (st K V).

(* the fields stored in one node: a leaf's pairs and next link, an internal node's separators and child pointers *)
Inductive view :=
| VLeaf (nx : option id) (es : list (K * V))
| VNode (cs : list (K * id)).

Definition view_of (n : itree) : view :=
  match n with
  | ILeaf _ nx es => VLeaf nx es
  | INode _ cs => VNode (map (fun c => (fst c, nid (snd c))) cs)
  end.

(* the fields of node x in the tree, if x is in the tree *)
Definition node_view (x : id) (t : itree) : option view := option_map view_of (find x t).

(* identities are unique and below the allocation counter *)
Definition ids_ok (s : st) : Prop := NoDup (ids (tr s)) /\ Forall (fun i => i < fresh s) (ids (tr s)).

(* the lock thread [me] is being granted by this step, if any *)
Definition granted (tg : option (option id)) : list id := match tg with Some (Some x) => [x] | _ => [] end.

End Frame.

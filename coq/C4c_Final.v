(* C4c_Final.v — the FIRST pair a cursor yields is an atomic successor query: at the step that yields it, it is the
   stored pair with the least key not below the start key among ALL stored pairs (no side condition on the leaf where
   NewScanner landed).  Uses the invariant scan_lo_b (C4c_Inv.v): the landing leaf has its lower bound at or below the
   start key, or lies on the leftmost path (nothing is stored to its left). *)
From Coq Require Import List Bool Lia PeanoNat Sorted.
From GB Require Import Model Spec Inv ListLemmas SearchProof Conc GI LockInv CInv CInv3 CIDef EraseLemmas GIa1_Ctx
  LINa_Lists LINa_Ctx LINa_Abs Lin LinDef ASM_Proof
  C4_Lists C4_Geom C4_Blocks C4_Inv C4_Proof C4_Final NoGap C4c_Own C4c_Inv.
Import ListNotations.

Section Left.
Variables (K V : Type) (ltb : K -> K -> bool).
Hypothesis HS : SWO ltb.
Variable order : nat.
Hypothesis H4 : 4 <= order.
Notation st := (st K V).

(* no stored entry is below the lower bound of a leaf on the leftmost path *)
Lemma leftmost_no_below (s : st) leaf j nx (es : list (K * V)) e' :
  BigInv K V ltb order s -> Conc.find leaf (tr s) = Some (ILeaf j nx es) ->
  leftmost_b leaf (tr s) = true -> In e' (ents (tr s)) -> below_lo ltb (fst e') leaf (tr s) = false.
Proof.
  intros HB Hf Hlm Hin.
  destruct (leaf_at_intro K V ltb order s leaf j nx es (BI_GI K V ltb order s HB) Hf) as (-> & C & Hl).
  pose proof Hl as (Et & Hw & Hsh).
  assert (HC : lmC C = true).
  { rewrite Et in Hlm. rewrite (leftmost_ctx K V leaf (fresh s) C (ILeaf leaf nx es) Hw eq_refl) in Hlm. exact Hlm. }
  assert (Hge : forall e0, In e0 es -> ge_lo ltb (fst e0) (fst (cbounds C)) = true).
  { intros e0 He0.
    assert (H : Forall (fun e => rng ltb (cbounds C) (fst e)) (entries (erase_ids (ILeaf leaf nx es)))).
    { apply (ctx_inner K V ltb HS order). rewrite <- Et. exact Hsh. }
    simpl in H. rewrite Forall_forall in H. exact (proj1 (H e0 He0)). }
  assert (Hlo : forall k, ge_lo ltb k (fst (cbounds C)) = true -> below_lo ltb k leaf (tr s) = false).
  { intros k Hk. apply (in_lo_below_lo K V ltb). rewrite Et.
    exact (eq_trans (in_lo_plug K V ltb C (ILeaf leaf nx es) (fresh s) k Hw) Hk). }
  rewrite (ctx_ents K V ltb order _ _ _ _ _ _ Hl), (lmC_Lents K V C HC) in Hin. cbn [app] in Hin.
  apply in_app_or in Hin. destruct Hin as [Hin|Hin].
  - apply Hlo. apply Hge. exact Hin.
  - destruct es as [|e0 es0].
    + exfalso. pose proof (leaf_nonempty K V ltb order H4 s leaf leaf nx [] HB Hf eq_refl) as Hne.
      rewrite (ctx_ents K V ltb order _ _ _ _ _ _ Hl), (lmC_Lents K V C HC) in Hne. cbn [app] in Hne.
      rewrite Hne in Hin. destruct Hin.
    + apply Hlo. apply (ge_lo_trans K ltb HS (fst e') (fst e0)); [|apply Hge; left; reflexivity].
      apply (lt_asym K ltb HS).
      apply (ctx_right_above K V ltb HS order C leaf nx (e0 :: es0) (tr s) (fresh s) e0 e' Hl); [left; reflexivity|exact Hin].
Qed.

End Left.

Section Final.
Variables (K V : Type) (ltb : K -> K -> bool).
Hypothesis HS : SWO ltb.
Variable order : nat.
Hypothesis Heven : Nat.even order = true.
Hypothesis H4 : 4 <= order.
Notation st := (st K V).

(* the three facts proved elsewhere *)
Hypothesis nogap_step : forall (s s' : st) me acq ev,
  ASM_Proof.BigInv K V ltb order s -> nogap_st_b ltb s = true ->
  cstep ltb order s me = Stepped s' acq ev -> nogap_st_b ltb s' = true.
Hypothesis nogap_init : forall progs : list (tid * list (cop K V)), nogap_st_b ltb (init_st progs) = true.
Hypothesis scan_lo_other_step : forall (s s' : st) me acq ev t th,
  ASM_Proof.BigInv K V ltb order s -> nogap_st_b ltb s = true ->
  cstep ltb order s me = Stepped s' acq ev -> t <> me ->
  get_thread t (ths s) = Some th ->
  scan_lo_pc_b ltb (tr s) (prog th) (tpc th) = true ->
  scan_lo_pc_b ltb (tr s') (prog th) (tpc th) = true.

Variable progs : list (tid * list (cop K V)).
Hypothesis Hnd : NoDup (map fst progs).

(* a reachable state *)
Variable sched : list tid.
Let s := fst (exec ltb order (init_st progs) sched).

Lemma reach_lo : LoInv ltb order s.
Proof.
  exact (LoInv_reachable K V ltb HS order Heven H4 nogap_step nogap_init scan_lo_other_step progs sched Hnd).
Qed.

(* (B5, unconditional) the first pair is the stored pair with the least key not below the start key *)
Theorem C04_first_step_atomic : forall s' me acq ev e th k cnt,
  cstep ltb order s me = Stepped s' acq ev -> In (EPair e) ev ->
  get_thread me (ths s) = Some th -> yielded (tpc th) = [] ->
  hd_error (prog th) = Some (CScan k cnt) ->
  In e (abs ltb s) /\ abs ltb s' = abs ltb s /\ ltb (fst e) k = false /\
  forall e', In e' (abs ltb s) -> ltb (fst e') k = false -> ltb (fst e') (fst e) = false.
Proof.
  intros s' me acq ev e th k cnt Hc Hin Hg Hy Hpr.
  destruct reach_lo as ((HB & HC) & Hng & Hsl).
  pose proof (pair_step_abs K V ltb HS order s s' me acq ev e (conj HB HC) Hc Hin) as Habs.
  pose proof (scan_lo_get K V ltb s me th Hsl Hg) as Hme.
  pose proof (HC me th Hg) as Hok.
  (* the leaf the cursor holds *)
  assert (Hleaf : exists leaf nx es, cur_leaf (tpc th) = Some leaf /\ lo_or_left ltb k leaf (tr s) = true /\
                    Conc.find leaf (tr s) = Some (ILeaf leaf nx es)).
  { destruct (pair_step_inv K V ltb order s s' me acq ev e Hc Hin) as [_ Hps].
    destruct (prog th) as [|o1 pr]; [discriminate Hpr|]. cbn [hd_error] in Hpr. inversion Hpr; subst o1.
    destruct Hps as [th1 th1' leaf1 i1 n1 acc j nx es Hg1 Hpc Hf Hn Htr Hths Hpc' Hacq
                    |th1 th1' leaf1 nxt1 n1 acc j nx es' Hg1 Hpc Hf Hfree Htr Hths Hpc' Hacq];
      rewrite Hg in Hg1; inversion Hg1; subst th1; rewrite Hpc in Hy, Hme, Hok |- *; cbn [yielded] in Hy; subst acc;
      cbn [scan_lo_pc_b] in Hme; cbn [cur_pc_ok] in Hok;
      destruct Hok as (k1 & cnt1 & nx1 & es1 & _ & Hf1 & _);
      exists leaf1, nx1, es1; cbn [cur_leaf]; auto. }
  destruct Hleaf as (leaf & nx & es & Hcl & Hlo & Hf).
  unfold lo_or_left in Hlo. apply orb_true_iff in Hlo. destruct Hlo as [Hlo|Hlm].
  - (* k is not below the lower bound of the landing leaf *)
    destruct (C04_first K V ltb HS order Heven H4 progs Hnd sched s' me acq ev e th leaf k cnt Hc Hin Hg Hcl Hy Hpr
                (in_lo_below_lo K V ltb k leaf (tr s) Hlo)) as (H1 & H2 & H3).
    auto.
  - (* the landing leaf is on the leftmost path: nothing stored lies below its lower bound *)
    destruct (C04_first_general K V ltb HS order Heven H4 progs Hnd sched s' me acq ev e th leaf k cnt Hc Hin Hg Hcl Hy Hpr)
      as (H1 & H2 & H3).
    split; [exact H1|]. split; [exact Habs|]. split; [exact H2|].
    intros e' He' Hk'. apply H3; [exact He'|exact Hk'|].
    apply (leftmost_no_below K V ltb HS order H4 s leaf leaf nx es e' HB Hf Hlm).
    exact (abs_in_ents K V ltb s e' He').
Qed.

(* the same, as "there is a linearization moment": the state just before the yielding step *)
Definition least_at_or_above (M : list (K * V)) (k : K) (e : K * V) : Prop :=
  In e M /\ ltb (fst e) k = false /\ forall e', In e' M -> ltb (fst e') k = false -> ltb (fst e') (fst e) = false.

Corollary C04_first_linearization_moment : forall s' me acq ev e th k cnt,
  cstep ltb order s me = Stepped s' acq ev -> In (EPair e) ev ->
  get_thread me (ths s) = Some th -> yielded (tpc th) = [] ->
  hd_error (prog th) = Some (CScan k cnt) ->
  exists M, M = abs ltb s /\ M = abs ltb s' /\ least_at_or_above M k e.
Proof.
  intros s' me acq ev e th k cnt Hc Hin Hg Hy Hpr.
  destruct (C04_first_step_atomic s' me acq ev e th k cnt Hc Hin Hg Hy Hpr) as (H1 & H2 & H3 & H4').
  exists (abs ltb s). split; [reflexivity|]. split; [symmetry; exact H2|]. split; [exact H1|]. split; assumption.
Qed.

End Final.

Arguments least_at_or_above {K V} ltb M k e.

(* SUMMARY (agent C4c).  Files, in dependency order: C4c_Own.v, C4c_Inv.v, C4c_Final.v.  Nothing is left open.
   C4c_Own.v   nogap_plug / leftmost_ctx / lmC_Lents (nogap_b and leftmost_b through one-hole contexts), sea_child_lo (the
               child the binary search selects inherits lo_or_left), blk_sea (only sea_descend rests at SeaWantChild),
               scan_lo_own_step.
   C4c_Inv.v   scan_lo_step, scan_lo_init, LoInv := CurInv /\ nogap_st_b /\ scan_lo_b, LoInv_reachable, scan_lo_reachable.
   C4c_Final.v leftmost_no_below, C04_first_step_atomic, C04_first_linearization_moment.
   After the sections close, the premises of scan_lo_reachable, C04_first_step_atomic are, in this order:
     K V ltb, SWO ltb, order, Nat.even order = true, 4 <= order, nogap_step, nogap_init, scan_lo_other_step,
     progs, NoDup (map fst progs), sched, ...
   (scan_lo_step: K V ltb, SWO ltb, order, scan_lo_other_step;  scan_lo_own_step: K V ltb, SWO ltb, order.)
   The three hypotheses are used exactly as stated in the task; no extra premise was needed. *)

Check C04_first_step_atomic.
Check C04_first_linearization_moment.
Print Assumptions C04_first_linearization_moment.
Print Assumptions C04_first_step_atomic.

(* C4_Geom.v — where a leaf sits in the whole tree (for the cursor property C04): the entries of the tree are
   [Lents C ++ es ++ Rents C] around the entries [es] of a found leaf, strictly ascending; the leaf named by the
   stored next link is the next leaf in order (chain_ok + unique ids), so its entries follow immediately; a leaf
   without next link is the last one. *)
From Coq Require Import List Bool Lia PeanoNat Sorted.
From GB Require Import Model Spec Inv ListLemmas SearchProof TreeLemmas SearchScanProof Conc GI LockInv CInv CInv3
  EraseLemmas EraseOps SoloBase SoloSearch GIa1_Ctx LINa_Lists LINa_Ctx LINa_Abs PCb1_Bounds C4_Lists.
Import ListNotations.

Section G.
Variables (K V : Type) (ltb : K -> K -> bool).
Hypothesis HS : SWO ltb.
Variable order : nat.
Notation itree := (itree K V).
Notation st := (st K V).
Notation cframe := (cframe K V).
Notation SS := (StronglySorted (fun a b => ltb a b = true)).

Lemma GI_shape (s : st) : GI ltb order s -> shape ltb order (tr s).
Proof.
  intros (_ & _ & Ho & Hb & Hc & Hch). split; [|exact Hch].
  split; [exact Ho|]. split; [eexists; exact Hb|exact Hc].
Qed.

(* a found leaf, in context *)
Lemma leaf_ctx (s : st) x j nx (es : list (K * V)) :
  GI ltb order s -> Conc.find x (tr s) = Some (ILeaf j nx es) ->
  j = x /\ exists C : list cframe, tr s = plug C (ILeaf x nx es) /\ wfc C (ILeaf x nx es) (fresh s).
Proof.
  intros (Hnd & Hlt & _) Hf. destruct (find_decompose K V x (tr s) _ (fresh s) Hnd Hlt Hf) as (C & Et & Hw & Hn).
  simpl in Hn. subst j. split; [reflexivity|]. exists C. split; assumption.
Qed.

(* leaf x (next link nx, entries es) sits in context C of the well-shaped tree t *)
Definition leaf_at (C : list cframe) (x : id) (nx : option id) (es : list (K * V)) (t : itree) (fr : id) : Prop :=
  t = plug C (ILeaf x nx es) /\ wfc C (ILeaf x nx es) fr /\ shape ltb order t.

Lemma leaf_at_intro (s : st) x j nx (es : list (K * V)) :
  GI ltb order s -> Conc.find x (tr s) = Some (ILeaf j nx es) ->
  j = x /\ exists C, leaf_at C x nx es (tr s) (fresh s).
Proof.
  intros HG Hf. destruct (leaf_ctx s x j nx es HG Hf) as (-> & C & Et & Hw). split; [reflexivity|].
  exists C. split; [exact Et|]. split; [exact Hw|]. apply GI_shape. exact HG.
Qed.

Lemma ctx_ents C x nx es t fr : leaf_at C x nx es t fr -> ents t = Lents C ++ es ++ Rents C.
Proof. intros (Et & _ & _). unfold ents. rewrite Et, entries_plug. reflexivity. Qed.

Lemma ctx_SS C x nx es t fr : leaf_at C x nx es t fr -> SS (map fst (Lents C ++ es ++ Rents C)).
Proof. intros H. rewrite <- (ctx_ents _ _ _ _ _ _ H). apply (shape_entries_SS K V ltb HS order). exact (proj2 (proj2 H)). Qed.

Lemma ctx_in C x nx es t fr e : leaf_at C x nx es t fr -> In e es -> In e (ents t).
Proof. intros Hl H. rewrite (ctx_ents _ _ _ _ _ _ Hl). apply in_or_app. right. apply in_or_app. left. exact H. Qed.

Lemma ctx_far C x nx es t fr e : leaf_at C x nx es t fr -> In e es -> FAR ltb x (fst e) t.
Proof.
  intros Hl Hin. destruct (SS_mid K V ltb _ _ _ e (ctx_SS _ _ _ _ _ _ Hl) Hin) as [HL HR].
  rewrite (proj1 Hl). apply far_of_sides; assumption.
Qed.

Lemma ctx_below_hi C x nx es t fr k : leaf_at C x nx es t fr -> below_hi ltb k x t = lt_hi ltb k (snd (cbounds C)).
Proof.
  intros (Et & Hw & _). unfold below_hi. rewrite Et. change x with (nid (ILeaf x nx es)) at 1.
  rewrite (bounds_plug_self K V C _ fr Hw). destruct (cbounds C); reflexivity.
Qed.

Lemma ctx_right_of C x nx es t fr k :
  leaf_at C x nx es t fr -> below_hi ltb k x t = true -> Forall (fun e => ltb k (fst e) = true) (Rents C).
Proof.
  intros Hl Hb. rewrite (ctx_below_hi _ _ _ _ _ _ k Hl) in Hb. destruct Hl as (Et & _ & Hsh).
  apply (ctx_right K V ltb HS order C (ILeaf x nx es)); [rewrite <- Et; exact Hsh|exact Hb].
Qed.

(* entries of the leaf are below the upper bound of the leaf *)
Lemma ctx_entry_below_hi C x nx es t fr e : leaf_at C x nx es t fr -> In e es -> below_hi ltb (fst e) x t = true.
Proof.
  intros Hl Hin. rewrite (ctx_below_hi _ _ _ _ _ _ _ Hl). destruct Hl as (Et & _ & Hsh).
  assert (H : Forall (fun e => rng ltb (cbounds C) (fst e)) (entries (erase_ids (ILeaf x nx es)))).
  { apply (ctx_inner K V ltb HS order). rewrite <- Et. exact Hsh. }
  simpl in H. rewrite Forall_forall in H. exact (proj2 (H e Hin)).
Qed.

(* the right-hand entries are above every entry of the leaf *)
Lemma ctx_right_above C x nx es t fr e e' :
  leaf_at C x nx es t fr -> In e es -> In e' (Rents C) -> ltb (fst e) (fst e') = true.
Proof.
  intros Hl Hin Hin'. destruct (SS_mid K V ltb _ _ _ e (ctx_SS _ _ _ _ _ _ Hl) Hin) as [_ HR].
  rewrite Forall_forall in HR. auto.
Qed.

(* the left-hand entries are below every entry of the leaf *)
Lemma ctx_left_below C x nx es t fr e e' :
  leaf_at C x nx es t fr -> In e es -> In e' (Lents C) -> ltb (fst e') (fst e) = true.
Proof.
  intros Hl Hin Hin'. destruct (SS_mid K V ltb _ _ _ e (ctx_SS _ _ _ _ _ _ Hl) Hin) as [HL _].
  rewrite Forall_forall in HL. auto.
Qed.

Lemma ctx_leaves C x nx es t fr : leaf_at C x nx es t fr -> leaves t = lleaves C ++ (x, nx, es) :: rleaves C.
Proof. intros (Et & _ & _). rewrite Et, leaves_plug. reflexivity. Qed.

(* the stored next link names the next leaf in order *)
Lemma ctx_next C x y es t fr j nx' es' :
  leaf_at C x (Some y) es t fr -> NoDup (ids t) -> Conc.find y t = Some (ILeaf j nx' es') ->
  exists R', rleaves C = (y, nx', es') :: R'.
Proof.
  intros Hl Hnd Hf. pose proof (proj2 (proj2 (proj2 Hl))) as Hch.
  rewrite leaves_links, (ctx_leaves _ _ _ _ _ _ Hl) in Hch.
  pose proof (chain_next K V _ _ _ _ _ Hch) as Hn.
  destruct (rleaves C) as [|[[y2 nx2] es2] R'] eqn:ER; [discriminate Hn|].
  inversion Hn as [Hy]. unfold lid in Hy. simpl in Hy. subst y2.
  assert (Hin : In (y, nx2, es2) (leaves t)).
  { rewrite (ctx_leaves _ _ _ _ _ _ Hl), ER. apply in_or_app. right. right. left. reflexivity. }
  rewrite (leaves_find K V t y nx2 es2 Hnd Hin) in Hf. inversion Hf; subst. exists R'. reflexivity.
Qed.

Lemma ctx_next_ents C x y es t fr j nx' es' :
  leaf_at C x (Some y) es t fr -> NoDup (ids t) -> Conc.find y t = Some (ILeaf j nx' es') ->
  exists Q, Rents C = es' ++ Q.
Proof.
  intros Hl Hnd Hf. destruct (ctx_next _ _ _ _ _ _ _ _ _ Hl Hnd Hf) as [R' ER].
  exists (flat_map snd R'). unfold Rents. rewrite ER. reflexivity.
Qed.

(* no next link: the last leaf *)
Lemma ctx_last C x es t fr : leaf_at C x None es t fr -> Rents C = [].
Proof.
  intros Hl. pose proof (proj2 (proj2 (proj2 Hl))) as Hch.
  rewrite leaves_links, (ctx_leaves _ _ _ _ _ _ Hl) in Hch.
  pose proof (chain_next K V _ _ _ _ _ Hch) as Hn.
  unfold Rents. destruct (rleaves C) as [|l R']; [reflexivity|discriminate Hn].
Qed.

End G.

Arguments leaf_at {K V} ltb order C x nx es t fr.

(* OCCc_Blocks.v — minimum occupancy through the atomic blocks of Conc.v. *)
From Coq Require Import List Permutation Lia Bool PeanoNat.
From GB Require Import ListLemmas TreeLemmas Frame LockProof UpdLemmas FrameRel FrameInv FrameBlocks CInv OCCc_Base.
Import ListNotations.

Section OccBlocks.
Variables (K V : Type) (ltb : K -> K -> bool).
Notation itree := (itree K V).
Notation pc := (pc K V).
Notation st := (st K V).
Notation out := (out K V).
Notation thread := (thread K V).

(* the strengthening of the DelWantRight clause of pc_ok_b: the child is exactly one entry short of the minimum,
   and it has a right sibling (the one the thread is waiting for) *)
Definition pc_small_b (order : nat) (t : itree) (p : pc) : bool :=
  match p with
  | DelWantRight _ (f :: _) =>
    (match fc f with
     | Some c => match find c t with Some ct => S (icount ct) =? Nat.div2 order | None => false end
     | None => false end) &&
    (match find (fp f) t with Some (INode _ cs) => fidx f + 1 <? length cs | _ => false end)
  | _ => true end.
Definition all_small_b (order : nat) (s : st) : bool :=
  forallb (fun e => pc_small_b order (tr s) (tpc (snd e))) (ths s).

(* the operation recorded in a pc of the Insert/Update path is an Insert or an Update; at the callback an Update *)
Definition is_ups (o : cop K V) : bool := match o with CInsert _ _ | CUpdate _ _ => true | _ => false end.
Definition pc_op_b (p : pc) : bool :=
  match p with
  | InsWantRootRight o _ _ | InsWantChild o _ _ _ | InsWantSplitRight o _ _ _ => is_ups o
  | UpdCallback (CUpdate _ _) _ _ _ => true
  | UpdCallback _ _ _ _ => false
  | _ => true end.
Definition all_op_b (s : st) : bool := forallb (fun e => pc_op_b (tpc (snd e))) (ths s).

(* ---- lists ---- *)
Lemma set_nth_length {A} i (x y : A) l : nth_error l i = Some y -> length (set_nth i x l) = length l.
Proof.
  intros H. assert (i < length l) by (apply nth_error_Some; congruence).
  unfold set_nth. rewrite app_length, firstn_length. cbn [length]. rewrite skipn_length. lia.
Qed.
Lemma ins_nth_length {A} i (x : A) l : length (ins_nth i x l) = S (length l).
Proof. unfold ins_nth. rewrite app_length, firstn_length. cbn [length]. rewrite skipn_length. lia. Qed.
Lemma del_nth_length {A} i (y : A) l : nth_error l i = Some y -> S (length (del_nth i l)) = length l.
Proof.
  intros H. assert (i < length l) by (apply nth_error_Some; congruence).
  unfold del_nth. rewrite app_length, firstn_length, skipn_length. lia.
Qed.

Lemma leaf_upsert_len k f (es es' : list (K * V)) a : leaf_upsert ltb k f es = Ok (es', a) -> length es <= length es'.
Proof.
  unfold leaf_upsert. intros H. crunch H; inversion H; subst; clear H.
  - rewrite app_length. simpl. lia.
  - match goal with G : get_nth _ _ = Ok _ |- _ => apply get_nth_Ok in G end. erewrite set_nth_length; eauto.
  - rewrite ins_nth_length. lia.
  - rewrite app_length. simpl. lia.
Qed.

(* ---- a leaf that does not shrink ---- *)
Lemma leaf_upd_occ order e x i nx nx' (es es' : list (K * V)) (t t' : itree) :
  NoDup (ids t) -> find x t = Some (ILeaf i nx es) -> upd x (fun _ => Ok (ILeaf i nx' es')) t = Ok t' ->
  length es <= length es' -> iocc_b order e true t = true -> iocc_b order e true t' = true.
Proof.
  intros Hnd Hf Hu Hl Ho.
  eapply iocc_upd_root with (n := ILeaf i nx es) (n' := ILeaf i nx' es'); eauto;
    intros _; apply iocc_leaf_grow; exact Hl.
Qed.

(* ---- splits ---- *)
Lemma isplit_occ order e s (t l r : itree) b :
  Nat.even order = true -> isplit order s t = Some (l, r) -> iocc_b order e b t = true ->
  iocc_b order e false l = true /\ iocc_b order e false r = true.
Proof.
  intros Hev H Ho. unfold isplit in H. destruct (icount t <? order) eqn:E; [discriminate|].
  apply Nat.ltb_ge in E. pose proof (even_div2 order Hev) as Hd.
  destruct t as [i nx es|i cs]; inversion H; subst; clear H; simpl in E.
  - rewrite !iocc_leaf. unfold top_ok. cbn [icount nid].
    rewrite !firstn_length, skipn_length.
    split; apply orb_true_iff; right; apply Nat.leb_le; lia.
  - apply iocc_kids in Ho. simpl in Ho. rewrite !iocc_node. unfold top_ok. cbn [icount nid].
    rewrite !firstn_length, skipn_length.
    split; apply andb_true_intro; split.
    + apply orb_true_iff; right; apply Nat.leb_le; lia.
    + apply ioccl_firstn. exact Ho.
    + apply orb_true_iff; right; apply Nat.leb_le; lia.
    + apply ioccl_firstn. apply ioccl_skipn. exact Ho.
Qed.

(* ---- the descent blocks ---- *)
Lemma ins_descend_occ order e o n (t : itree) l fr tmx (out : out) :
  ins_descend ltb o n t l fr tmx = Ok out -> NoDup (ids t) -> iocc_b order e true t = true ->
  iocc_b order e true (otr out) = true /\ exempt_of (opc out) = None /\ (forall t', pc_small_b order t' (opc out) = true).
Proof.
  intros H Hnd Ho. unfold ins_descend, mk in H.
  destruct (find n t) as [[i nx es|pi cs]|] eqn:Hf; [| |discriminate H].
  - crunch H; inversion H; subst; clear H; cbn [otr opc]; (split; [|split; [reflexivity|intros; reflexivity]]); try exact Ho.
    all: eapply leaf_upd_occ; eauto.
    all: try (rewrite ins_nth_length; lia).
    all: eapply leaf_upsert_len; eauto.
  - crunch H; inversion H; subst; clear H; cbn [otr opc]. auto.
Qed.

Lemma sea_descend_occ order o n (t : itree) l fr tmx (out : out) :
  sea_descend ltb o n t l fr tmx = Ok out ->
  otr out = t /\ exempt_of (opc out) = None /\ (forall t', pc_small_b order t' (opc out) = true).
Proof.
  intros H. unfold sea_descend, mk in H.
  crunch H; inversion H; subst; clear H; cbn [otr opc]; auto.
Qed.

Lemma del_descend_occ order o stk n (t : itree) p :
  del_descend ltb o stk n t = Ok p -> exempt_of p = None /\ (forall t', pc_small_b order t' p = true).
Proof.
  intros H. unfold del_descend in H. crunch H; inversion H; subst; clear H.
  destruct (0 <? a); auto.
Qed.

End OccBlocks.

Arguments pc_small_b {K V}. Arguments all_small_b {K V}.
Arguments is_ups {K V}. Arguments pc_op_b {K V}. Arguments all_op_b {K V}.

(* C4b_Demo.v — the hypotheses of the general completeness theorem (C4b_Proof.scan_complete_general, with the invariant
   discharged by CurInv_reachable as in C4b_Final.C04_complete_general) are inhabited by a run in which the NewScanner descent CLAMPS
   (vm_compute): order 4, thread 1 has inserted 10..60 (root [(10, leaf0); (30, leaf1)]), thread 2 scans from key 5,
   which is below the first separator of the root, so that it lands in leaf0 with [below_lo 5 leaf0 = true] (the case
   C4_Trace.scan_complete does not cover); thread 1 inserts 70 and thread 3 inserts 45 and starts deleting 60 while
   the scan runs.  The pair (50, 500) is stored in every state of the run, and the theorem (not the inspection of the
   output) says that it is among the pairs returned with EScanEnd. *)
From Coq Require Import List PeanoNat Bool Lia.
From GB Require Import Model Inv Conc Lin CInv PCb1_Proof C4_Blocks C4_Proof C4_Trace C4b_Proof C4b_Final.
Import ListNotations.

Definition ins (k : nat) : cop nat nat := CInsert k (10 * k).
Definition progs : list (tid * list (cop nat nat)) :=
  [ (1, [ins 10; ins 20; ins 30; ins 40; ins 50; ins 60; ins 70]);
    (2, [CScan 5 20]);
    (3, [ins 45; CDelete 60; ins 7; ins 80; ins 3]) ].

(* follow the preferred thread of each slot; if it cannot step, take the first thread that can *)
Fixpoint go (s : st nat nat) (pref : list tid) : st nat nat * list (tid * list (event nat nat)) :=
  match pref with
  | [] => (s, [])
  | t :: r =>
    let try := fix try (l : list tid) :=
      match l with
      | [] => None
      | u :: l' => match cstep Nat.ltb 4 s u with Stepped s' _ ev => Some (u, s', ev) | _ => try l' end
      end in
    match try (t :: [1; 2; 3]) with
    | Some (u, s', ev) => let '(s'', h) := go s' r in (s'', (u, ev) :: h)
    | None => (s, [])
    end
  end.
Fixpoint rep {A} (n : nat) (l : list A) : list A := match n with 0 => [] | S m => l ++ rep m l end.

(* thread 1 inserts its first six keys; thread 2 is about to invoke the scan *)
Definition sched1 : list tid := rep 22 [1].
Definition s0 := fst (exec Nat.ltb 4 (init_st progs) sched1).
Eval vm_compute in (tr s0, map (fun e => (fst e, tpc (snd e))) (ths s0)).

Definition is_end (ev : list (event nat nat)) : bool := existsb (fun e => match e with EScanEnd => true | _ => false end) ev.
Fixpoint before_end (h : list (tid * list (event nat nat))) : list tid :=
  match h with [] => [] | (t, ev) :: r => if is_end ev then [] else t :: before_end r end.

(* the life of the scan call, up to (not including) the step that reports EScanEnd *)
Definition sched2 : list tid := before_end (snd (go s0 (rep 40 [2; 3; 3; 1]))).
Definition s1 := fst (exec Nat.ltb 4 s0 sched2).
Eval vm_compute in sched2.
Eval vm_compute in (snd (exec Nat.ltb 4 s0 sched2)).

(* the descent clamped: after me's fourth step (invoke, tree mutex, root, leaf0) the cursor rests in leaf 0 whose
   lower bound 10 is above the start key 5 *)
Lemma demo_clamped :
  let s := fst (exec Nat.ltb 4 s0 (firstn 8 sched2)) in
  exists th, get_thread 2 (ths s) = Some th /\ tpc th = CurRest 0 0 20 [] /\ below_lo Nat.ltb 5 0 (tr s) = true.
Proof. vm_compute. eexists. split; [reflexivity|]. split; reflexivity. Qed.

(* a boolean version of [along] *)
Fixpoint along_b (Pb : st nat nat -> bool) (s : st nat nat) (sched : list tid) : bool :=
  Pb s && match sched with
          | [] => true
          | t :: r => match cstep Nat.ltb 4 s t with Stepped s' _ _ => along_b Pb s' r | _ => true end
          end.

Lemma along_b_ok (Pb : st nat nat -> bool) (P : st nat nat -> Prop) :
  (forall s, Pb s = true -> P s) -> forall sched s, along_b Pb s sched = true -> along nat nat Nat.ltb 4 P s sched.
Proof.
  intros H. induction sched as [|t r IH]; intros s Hb; simpl in *; apply andb_true_iff in Hb; destruct Hb as [H0 Hb].
  - split; [auto|exact I].
  - split; [auto|]. destruct (cstep Nat.ltb 4 s t) as [ | | |s' acq ev|p]; auto.
Qed.

Definition x : nat * nat := (50, 500).
Definition Pb (s : st nat nat) : bool :=
  existsb (fun e => (fst e =? 50) && (snd e =? 500)) (abs Nat.ltb s) &&
  match get_thread 2 (ths s) with
  | Some th => match prog th with [CScan k n] => (k =? 5) && (n =? 20) | _ => false end
  | None => false end.

Lemma Pb_ok s : Pb s = true -> In x (abs Nat.ltb s) /\ calling 2 [CScan 5 20] s.
Proof.
  unfold Pb. intros H. apply andb_true_iff in H. destruct H as [H1 H2]. split.
  - apply existsb_exists in H1. destruct H1 as ([a b] & Hin & Hab). simpl in Hab.
    apply andb_true_iff in Hab. destruct Hab as [Ha Hb]. apply Nat.eqb_eq in Ha, Hb. subst. exact Hin.
  - destruct (get_thread 2 (ths s)) as [th|] eqn:Hg; [|discriminate]. exists th. split; [exact Hg|].
    destruct (prog th) as [|[| | | |k n] [|? ?]]; try discriminate.
    apply andb_true_iff in H2. destruct H2 as [Ha Hb]. apply Nat.eqb_eq in Ha, Hb. subst. reflexivity.
Qed.

Lemma progs_nodup : NoDup (map fst progs).
Proof. simpl. repeat constructor; simpl; intuition; discriminate. Qed.

(* every hypothesis of the general completeness theorem holds for this run, hence its conclusion *)
Theorem demo_complete :
  exists s2 acq ev acc,
    cstep Nat.ltb 4 (fst (exec Nat.ltb 4 s0 sched2)) 2 = Stepped s2 acq ev /\ In x acc /\
    ev = [EScanEnd; EReturn (RPairs (rev acc))].
Proof.
  assert (Hstep : exists s2 acq ev, cstep Nat.ltb 4 (fst (exec Nat.ltb 4 s0 sched2)) 2 = Stepped s2 acq ev /\ In EScanEnd ev).
  { vm_compute. do 3 eexists. split; [reflexivity|]. left. reflexivity. }
  destruct Hstep as (s2 & acq & ev & Hc & Hin).
  assert (Hth : exists th, get_thread 2 (ths s0) = Some th /\ tpc th = Idle /\ prog th = [CScan 5 20]).
  { vm_compute. eexists. split; [reflexivity|]. split; reflexivity. }
  destruct Hth as (th & Hg & Hpc & Hpr).
  assert (Hb : along_b Pb s0 sched2 = true) by (vm_compute; reflexivity).
  assert (Hal : along nat nat Nat.ltb 4 (fun s => In x (abs Nat.ltb s) /\ calling 2 (prog th) s) s0 sched2).
  { rewrite Hpr. apply (along_b_ok Pb _ Pb_ok). exact Hb. }
  assert (HI : CurInv Nat.ltb 4 s0).
  { unfold s0. apply (CurInv_reachable nat nat Nat.ltb nat_SWO 4 eq_refl); [lia|exact progs_nodup]. }
  assert (Hhd : hd_error (prog th) = Some (CScan 5 20)) by (rewrite Hpr; reflexivity).
  assert (Hxk : Nat.ltb (fst x) 5 = false) by reflexivity.
  assert (H44 : 4 <= 4) by lia.
  destruct (scan_complete_general nat nat Nat.ltb nat_SWO 4 eq_refl H44 s0 2 5 20 th sched2 x s2 acq ev
              HI Hg Hpc Hhd Hxk Hal Hc Hin) as (acc & Hx & Eev).
  exists s2, acq, ev, acc. exact (conj Hc (conj Hx Eev)).
Qed.

Print Assumptions demo_complete.

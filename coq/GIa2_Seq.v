(* GIa2_Seq.v — sequential lemmas for the preservation of GI by the steps of Delete: what [rebalance],
   [leaf_delete] and the replacement of a subtree do to ordering, balance and capacity, WITHOUT any minimum
   occupancy hypothesis (GI does not contain one).  The occupancy-dependent lemmas of DeleteProof.v
   (adoptR_ok, adoptL_ok, absorb_ok, rebalance_ok) are re-proved here in a weaker form with [kcap]
   (capacity of the kids) in place of [kids_occ]. *)
From Coq Require Import List Bool Lia PeanoNat.
From GB Require Import Model Inv ListLemmas SearchProof TreeLemmas DeleteProof Conc GI EraseLemmas SoloDelete.
Import ListNotations.

Ltac gsplits0 := repeat match goal with |- _ /\ _ => split end.
Ltac gsplits := repeat match goal with |- _ /\ _ => split | |- ?x = ?x => reflexivity | |- True => exact I end.
Ltac ginapp := repeat (progress (rewrite ?in_app_iff in *; cbn [In] in * )).

Section S.
Variables (K V : Type) (ltb : K -> K -> bool).
Hypothesis HS : SWO ltb.
Notation tree := (tree K V).

Local Notation klt := (DeleteProof.klt K ltb).
Local Notation kle := (DeleteProof.kle K ltb).
Local Notation NOrd := (DeleteProof.NOrd K V ltb).
Local Notation good := (DeleteProof.good K V ltb).
Local Notation ssorted := (DeleteProof.ssorted K V ltb).
Local Notation kkeys := (DeleteProof.kkeys K V).
Local Notation kfp := (DeleteProof.fp K V).

Local Notation lirr := (DeleteProof.lirr K ltb HS).
Local Notation ltr := (DeleteProof.ltr K ltb HS).
Local Notation lasym := (DeleteProof.lasym K ltb HS).
Local Notation llt_le := (DeleteProof.llt_le K ltb HS).
Local Notation lle_lt := (DeleteProof.lle_lt K ltb HS).
Local Notation klt_incl := (DeleteProof.klt_incl K ltb).
Local Notation klt_app_l := (DeleteProof.klt_app_l K ltb).
Local Notation klt_app_r := (DeleteProof.klt_app_r K ltb).
Local Notation klt_nil_l := (DeleteProof.klt_nil_l K ltb).
Local Notation klt_nil_r := (DeleteProof.klt_nil_r K ltb).
Local Notation klt_cons_l := (DeleteProof.klt_cons_l K ltb).
Local Notation klt_cons_r := (DeleteProof.klt_cons_r K ltb).
Local Notation klt_via := (DeleteProof.klt_via K ltb HS).
Local Notation kle_incl := (DeleteProof.kle_incl K ltb).
Local Notation kle_app := (DeleteProof.kle_app K ltb).
Local Notation kle_lower := (DeleteProof.kle_lower K ltb HS).
Local Notation kle_of_lt := (DeleteProof.kle_of_lt K ltb HS).
Local Notation asc_cons_iff := (DeleteProof.asc_cons_iff K ltb HS).
Local Notation asc_app_iff := (DeleteProof.asc_app_iff K ltb HS).
Local Notation asc_head_low := (DeleteProof.asc_head_low K ltb HS).
Local Notation akF := (DeleteProof.all_kids_Forall K V).
Local Notation allkeys_node := (DeleteProof.allkeys_node K V).
Local Notation kkeys_app := (DeleteProof.kkeys_app K V).
Local Notation kkeys_cons := (DeleteProof.kkeys_cons K V).
Local Notation seps_in_kkeys := (DeleteProof.seps_in_kkeys K V).
Local Notation ordered_node_iff := (DeleteProof.ordered_node_iff K V ltb HS).
Local Notation NOrd_app := (DeleteProof.NOrd_app K V ltb).
Local Notation NOrd_head_low := (DeleteProof.NOrd_head_low K V ltb HS).
Local Notation NOrd_replace := (DeleteProof.NOrd_replace K V ltb HS).
Local Notation NOrd_mid := (DeleteProof.NOrd_mid K V ltb).
Local Notation bal_leaf := (DeleteProof.bal_leaf K V).
Local Notation bal_leaf_any := (DeleteProof.bal_leaf_any K V).
Local Notation bal_node := (DeleteProof.bal_node K V).

Variable order : nat.
Hypothesis H4 : 4 <= order.
Notation m := (Nat.div2 order).

Lemma gmm : m + m <= order.
Proof. exact (DeleteProof.mm order H4). Qed.
Lemma gm2 : 2 <= m.
Proof. exact (DeleteProof.m2 order H4). Qed.

(* capacity of the kids *)
Definition kcap (t : tree) : Prop :=
  match t with Leaf _ => True | Node cs => Forall (fun e : K * tree => cap order (snd e)) cs end.

Lemma cap_iff (t : tree) : cap order t <-> count t <= order /\ kcap t.
Proof. destruct t; cbn [cap kcap]; rewrite ?akF; tauto. Qed.

Notation bald d := (fun e : K * tree => bal d (snd e)).
Notation capk := (fun e : K * tree => cap order (snd e)).

(* ---------- absorb_right ---------- *)
Lemma absorb_cases' d sa (a : tree) sb (b : tree) :
  good (sa, a) -> good (sb, b) -> klt (allkeys a) [sb] -> bal d a -> bal d b -> kcap a -> kcap b ->
  exists t, absorb_right a b = Ok t /\ allkeys t = allkeys a ++ allkeys b /\ ordered ltb t /\
    bal d t /\ kcap t /\ count t = count a + count b.
Proof.
  intros [Ga Oa] [Gb Ob] Hlt Ba Bb Ka Kb. cbn [fst snd] in *.
  destruct a as [ea|ca], b as [eb|cb].
  - exists (Leaf (ea ++ eb)). cbn [absorb_right allkeys ordered count kcap] in *. gsplits.
    + apply map_app.
    + rewrite map_app. apply asc_app_iff. gsplits; auto.
      eapply klt_via; [|exact Gb]. intros x Hx. apply Hlt; [exact Hx|left; reflexivity].
    + apply bal_leaf. apply bal_leaf in Ba. exact Ba.
    + apply app_length.
  - apply bal_leaf in Ba. subst. contradiction.
  - apply bal_leaf in Bb. subst. contradiction.
  - exists (Node (ca ++ cb)). apply ordered_node_iff in Oa, Ob. rewrite allkeys_node in *.
    cbn [absorb_right count kcap] in *. gsplits.
    + rewrite allkeys_node. apply kkeys_app.
    + apply ordered_node_iff. apply NOrd_app. gsplits; try apply Oa; try apply Ob.
      eapply klt_via; [|eapply kle_incl; [exact Gb|apply seps_in_kkeys]].
      intros x Hx. apply Hlt; [exact Hx|left; reflexivity].
    + apply bal_node in Ba, Bb. destruct Ba as (d1 & E1 & N1 & F1). destruct Bb as (d2 & E2 & N2 & F2).
      apply bal_node. exists d1. subst d. inversion E2; subst d2. gsplits; auto.
      * destruct ca; [congruence|discriminate].
      * apply Forall_app; auto.
    + apply Forall_app; auto.
    + apply app_length.
Qed.

Lemma absorb_ok' d sa (a : tree) sb (b : tree) :
  NOrd [(sa, a); (sb, b)] -> bal d a -> bal d b -> kcap a -> kcap b ->
  exists t, absorb_right a b = Ok t /\ NOrd [(sa, t)] /\ incl (kkeys [(sa, t)]) (kkeys [(sa, a); (sb, b)]) /\
    bal d t /\ kcap t /\ count t = count a + count b.
Proof.
  intros [G S] Ba Bb Ka Kb.
  inversion G as [|? ? Ga G']; subst. inversion G' as [|? ? Gb _]; subst. destruct S as (S1 & _).
  unfold DeleteProof.fp in S1. cbn [map fst snd] in S1. apply klt_cons_l in S1. destruct S1 as [Hss Hlt].
  destruct (absorb_cases' d sa a sb b Ga Gb Hlt Ba Bb Ka Kb) as (t & E & Hall & Ot & Bt & Kt & Ct).
  exists t. gsplits; auto.
  - split; [|cbn; split; [apply klt_nil_r|exact I]].
    constructor; [|constructor]. split; cbn [fst snd]; [|exact Ot]. rewrite Hall. apply kle_app. split; [apply Ga|].
    eapply kle_lower; [|apply Gb]. apply Hss. left; reflexivity.
  - unfold DeleteProof.kkeys, DeleteProof.fp. cbn [flat_map fst snd]. rewrite Hall. intros y Hy. ginapp. tauto.
Qed.

(* ---------- adopt_from_right ---------- *)
Lemma adoptR_cases' d (c : tree) sr (r : tree) :
  ordered ltb c -> good (sr, r) -> klt (allkeys c) [sr] -> bal d c -> bal d r -> kcap c -> kcap r -> 2 <= count r ->
  exists c' r' rs xk, adopt_from_right c r = Ok (c', r') /\ smallest r' = Ok rs /\
    allkeys c' = allkeys c ++ xk /\ allkeys r = xk ++ allkeys r' /\ ordered ltb c' /\ ordered ltb r' /\
    kle rs (allkeys r') /\ In rs (allkeys r') /\ klt xk [rs] /\
    bal d c' /\ bal d r' /\ kcap c' /\ kcap r' /\
    count c' = S (count c) /\ S (count r') = count r.
Proof.
  intros Oc [Gr Or] Hlt Bc Br Kc Kr Hcnt. cbn [fst snd] in *.
  assert (Hsr : forall x, In x (allkeys c) -> ltb x sr = true) by (intros x Hx; apply Hlt; [exact Hx|left; reflexivity]).
  destruct c as [ec|cc], r as [er|cr].
  - destruct er as [|x er]; [cbn in Hcnt; lia|]. destruct er as [|[k2 v2] er]; [cbn in Hcnt; lia|].
    exists (Leaf (ec ++ [x])), (Leaf ((k2, v2) :: er)), k2, [fst x].
    cbn [adopt_from_right smallest allkeys ordered count kcap map fst] in *.
    gsplits; auto; try (eapply bal_leaf_any; eassumption).
    + apply map_app.
    + rewrite map_app. apply asc_app_iff. gsplits; auto.
      eapply klt_via; [exact Hsr|]. eapply kle_incl; [exact Gr|]. intros y [<-|[]]. left; reflexivity.
    + eapply asc_cons_inv; exact Or.
    + apply asc_head_low. eapply asc_cons_inv; exact Or.
    + left; reflexivity.
    + intros a b [<-|[]] [<-|[]]. apply Or.
    + rewrite app_length. simpl. lia.
  - apply bal_leaf in Bc. subst. contradiction.
  - apply bal_leaf in Br. subst. contradiction.
  - destruct cr as [|x cr]; [cbn in Hcnt; lia|]. destruct cr as [|x2 cr]; [cbn in Hcnt; lia|].
    exists (Node (cc ++ [x])), (Node (x2 :: cr)), (fst x2), (kfp x).
    apply ordered_node_iff in Oc, Or. rewrite allkeys_node in *.
    change (x :: x2 :: cr) with ([x] ++ x2 :: cr) in Or. apply NOrd_app in Or. destruct Or as (Ox & Or' & Hx2).
    cbn [adopt_from_right count kcap] in *.
    gsplits0.
    + reflexivity.
    + destruct x2; reflexivity.
    + rewrite allkeys_node, kkeys_app. cbn. rewrite app_nil_r. reflexivity.
    + reflexivity.
    + apply ordered_node_iff. apply NOrd_app. gsplits; try apply Oc; try apply Ox.
      eapply klt_via; [exact Hsr|]. eapply kle_incl; [exact Gr|]. intros y [<-|[]]. left; reflexivity.
    + apply ordered_node_iff. exact Or'.
    + rewrite allkeys_node. apply NOrd_head_low. exact Or'.
    + left; reflexivity.
    + cbn [DeleteProof.kkeys flat_map] in Hx2. rewrite app_nil_r in Hx2. cbn [map] in Hx2. apply klt_cons_r in Hx2.
      intros a b Ha [<-|[]]. apply (proj1 Hx2); exact Ha.
    + apply bal_node in Bc, Br. destruct Bc as (d1 & E1 & N1 & F1). destruct Br as (d2 & E2 & N2 & F2).
      apply bal_node. exists d1. subst d. inversion E2; subst d2. gsplits; auto.
      * destruct cc; discriminate.
      * apply Forall_app. split; auto. inversion F2; subst. constructor; auto.
    + apply bal_node in Br. destruct Br as (d2 & E2 & N2 & F2). apply bal_node. exists d2. gsplits; auto.
      * discriminate.
      * inversion F2; subst; auto.
    + apply Forall_app. split; auto. inversion Kr; subst. constructor; auto.
    + inversion Kr; subst; auto.
    + rewrite app_length. simpl. lia.
    + reflexivity.
Qed.

Lemma adoptR_ok' d s (c : tree) sr (r : tree) :
  NOrd [(s, c); (sr, r)] -> bal d c -> bal d r -> kcap c -> kcap r -> 2 <= count r ->
  exists c' r' rs, adopt_from_right c r = Ok (c', r') /\ smallest r' = Ok rs /\
    NOrd [(s, c'); (rs, r')] /\ incl (kkeys [(s, c'); (rs, r')]) (kkeys [(s, c); (sr, r)]) /\
    bal d c' /\ bal d r' /\ kcap c' /\ kcap r' /\ count c' = S (count c) /\ S (count r') = count r.
Proof.
  intros [G S] Bc Br Kc Kr Hcr.
  inversion G as [|? ? Gc G']; subst. inversion G' as [|? ? Gr _]; subst. destruct S as (S1 & _).
  unfold DeleteProof.fp in S1. cbn [map fst snd] in S1. apply klt_cons_l in S1. destruct S1 as [Hss Hlt].
  destruct (adoptR_cases' d c sr r (proj2 Gc) Gr Hlt Bc Br Kc Kr Hcr)
    as (c' & r' & rs & xk & E1 & E2 & A1 & A2 & O1 & O2 & L1 & I1 & X1 & B1 & B2 & K1 & K2 & C1 & C2).
  destruct Gc as [Gc Oc]. destruct Gr as [Gr Or]. cbn [fst snd] in *.
  exists c', r', rs.
  assert (Hs_sr : ltb s sr = true) by (apply Hss; left; reflexivity).
  assert (Hsr_rs : ltb rs sr = false). { apply Gr. rewrite A2. apply in_app_iff. right. exact I1. }
  gsplits0; auto.
  - split.
    + constructor; [|constructor; [|constructor]]; split; cbn [fst snd]; auto.
      rewrite A1. apply kle_app. split; [apply Gc|]. eapply kle_lower; [exact Hs_sr|].
      eapply kle_incl; [apply Gr|]. rewrite A2. apply incl_appl, incl_refl.
    + cbn [DeleteProof.ssorted]. gsplits0; try exact I; try apply klt_nil_r. unfold DeleteProof.fp; cbn [map fst snd]. rewrite A1.
      apply klt_cons_l. split.
      * intros y [<-|[]]. eapply llt_le; eauto.
      * apply klt_app_l. split; [|exact X1]. intros x y Hx [<-|[]].
        eapply llt_le; [apply Hlt; [exact Hx|left; reflexivity]|exact Hsr_rs].
  - unfold DeleteProof.kkeys, DeleteProof.fp. cbn [flat_map fst snd]. rewrite A1, A2. intros y Hy. ginapp.
    repeat match goal with H : _ \/ _ |- _ => destruct H end; try contradiction; try subst y; tauto.
Qed.

(* ---------- adopt_from_left ---------- *)
Lemma adoptL_cases' d sl (l : tree) s (c : tree) :
  good (sl, l) -> good (s, c) -> klt (allkeys l) [s] -> bal d l -> bal d c -> kcap l -> kcap c -> 2 <= count l ->
  exists l' c' sm xk, adopt_from_left l c = Ok (l', c') /\ smallest c' = Ok sm /\
    allkeys l = allkeys l' ++ xk /\ allkeys c' = xk ++ allkeys c /\ ordered ltb l' /\ ordered ltb c' /\
    In sm xk /\ kle sm xk /\ klt (allkeys l') [sm] /\ (exists k0, In k0 (allkeys l')) /\
    bal d l' /\ bal d c' /\ kcap l' /\ kcap c' /\
    S (count l') = count l /\ count c' = S (count c).
Proof.
  intros [Gl Ol] [Gc Oc] Hlt Bl Bc Kl Kc Hcnt. cbn [fst snd] in *.
  assert (Hs : forall x, In x (allkeys l) -> ltb x s = true) by (intros x Hx; apply Hlt; [exact Hx|left; reflexivity]).
  destruct l as [el|cl], c as [ec|cc].
  - destruct (rev el) as [|x el'] eqn:E.
    { cbn [count] in Hcnt. rewrite <- rev_length, E in Hcnt. simpl in Hcnt. lia. }
    assert (Ead : adopt_from_left (Leaf el : tree) (Leaf ec) = Ok (Leaf (rev el'), Leaf (x :: ec))).
    { cbn [adopt_from_left]. rewrite E. reflexivity. }
    apply DeleteProof.rev_cons_inv in E. subst el. set (l0 := rev el') in *. clearbody l0.
    exists (Leaf l0), (Leaf (x :: ec)), (fst x), [fst x].
    cbn [allkeys ordered count kcap map] in *. rewrite map_app in *. cbn [map] in *.
    apply asc_app_iff in Ol. destruct Ol as (Ol0 & _ & Ol1).
    gsplits0; auto; try (eapply bal_leaf_any; eassumption).
    + destruct x; reflexivity.
    + apply asc_cons_iff. split; [|exact Oc]. intros y Hy. eapply llt_le; [|apply Gc; exact Hy].
      apply Hs. apply in_app_iff. right. left. reflexivity.
    + left; reflexivity.
    + intros y [<-|[]]. apply lirr.
    + destruct l0 as [|e0 l0]; [simpl in Hcnt; lia|]. exists (fst e0). left. reflexivity.
    + rewrite app_length. simpl. lia.
  - apply bal_leaf in Bl. subst. contradiction.
  - apply bal_leaf in Bc. subst. contradiction.
  - destruct (rev cl) as [|x cl'] eqn:E.
    { cbn [count] in Hcnt. rewrite <- rev_length, E in Hcnt. simpl in Hcnt. lia. }
    assert (Ead : adopt_from_left (Node cl : tree) (Node cc) = Ok (Node (rev cl'), Node (x :: cc))).
    { cbn [adopt_from_left]. rewrite E. reflexivity. }
    apply DeleteProof.rev_cons_inv in E. subst cl. set (l0 := rev cl') in *. clearbody l0.
    exists (Node l0), (Node (x :: cc)), (fst x), (kfp x).
    apply ordered_node_iff in Ol, Oc. rewrite allkeys_node in *.
    apply NOrd_app in Ol. destruct Ol as (Ol0 & Ox & Ol1).
    rewrite kkeys_app in *. cbn [DeleteProof.kkeys flat_map] in Gl, Hs, Hlt. rewrite app_nil_r in Gl, Hs, Hlt.
    cbn [count kcap] in *.
    apply bal_node in Bl, Bc. destruct Bl as (d1 & E1 & N1 & F1). destruct Bc as (d2 & E2 & N2 & F2).
    subst d. inversion E2; subst d2. apply Forall_app in F1. destruct F1 as [F1 F1x].
    apply Forall_app in Kl. destruct Kl as [Kl Klx].
    assert (Hl0 : l0 <> []). { destruct l0; [simpl in Hcnt; lia|discriminate]. }
    gsplits0; auto.
    + destruct x; reflexivity.
    + cbn [DeleteProof.kkeys flat_map]. rewrite app_nil_r. reflexivity.
    + apply ordered_node_iff. exact Ol0.
    + apply ordered_node_iff. change (x :: cc) with ([x] ++ cc). apply NOrd_app. gsplits0; auto.
      cbn [DeleteProof.kkeys flat_map]. rewrite app_nil_r. eapply klt_via.
      * intros y Hy. apply Hs. apply in_app_iff. right. exact Hy.
      * eapply kle_incl; [exact Gc|apply seps_in_kkeys].
    + left; reflexivity.
    + destruct Ox as [Gx _]. inversion Gx as [|? ? [Gx' _] _]; subst.
      intros y [<-|Hy]; [apply lirr|apply Gx'; exact Hy].
    + destruct l0 as [|e0 l0]; [congruence|]. exists (fst e0). left. reflexivity.
    + apply bal_node. exists d1. auto.
    + apply bal_node. exists d1. gsplits0; auto; [discriminate|]. inversion F1x; subst. constructor; auto.
    + inversion Klx; subst. constructor; auto.
    + rewrite app_length. simpl. lia.
Qed.

Lemma adoptL_ok' d sl (l : tree) s (c : tree) :
  NOrd [(sl, l); (s, c)] -> bal d l -> bal d c -> kcap l -> kcap c -> 2 <= count l ->
  exists l' c' sm, adopt_from_left l c = Ok (l', c') /\ smallest c' = Ok sm /\
    NOrd [(sl, l'); (sm, c')] /\ incl (kkeys [(sl, l'); (sm, c')]) (kkeys [(sl, l); (s, c)]) /\
    bal d l' /\ bal d c' /\ kcap l' /\ kcap c' /\ S (count l') = count l /\ count c' = S (count c).
Proof.
  intros [G S] Bl Bc Kl Kc Hcl.
  inversion G as [|? ? Gl G']; subst. inversion G' as [|? ? Gc _]; subst. destruct S as (S1 & _).
  unfold DeleteProof.fp in S1. cbn [map fst snd] in S1. apply klt_cons_l in S1. destruct S1 as [Hss Hlt].
  destruct (adoptL_cases' d sl l s c Gl Gc Hlt Bl Bc Kl Kc Hcl)
    as (l' & c' & sm & xk & E1 & E2 & A1 & A2 & O1 & O2 & I1 & L1 & X1 & (k0 & Hk0) & B1 & B2 & K1 & K2 & C1 & C2).
  destruct Gl as [Gl Ol]. destruct Gc as [Gc Oc]. cbn [fst snd] in *.
  exists l', c', sm.
  assert (Hsm_s : ltb sm s = true). { apply Hlt; [|left; reflexivity]. rewrite A1. apply in_app_iff. right. exact I1. }
  gsplits0; auto.
  - split.
    + constructor; [|constructor; [|constructor]]; split; cbn [fst snd]; auto.
      * eapply kle_incl; [exact Gl|]. rewrite A1. apply incl_appl, incl_refl.
      * rewrite A2. apply kle_app. split; [exact L1|]. eapply kle_lower; [exact Hsm_s|exact Gc].
    + cbn [DeleteProof.ssorted]. gsplits0; try exact I; try apply klt_nil_r. unfold DeleteProof.fp; cbn [map fst snd].
      apply klt_cons_l. split; [|exact X1].
      intros y [<-|[]]. apply (lle_lt sl k0 sm).
      * apply Gl. rewrite A1. apply in_app_iff. left. exact Hk0.
      * apply X1; [exact Hk0|left; reflexivity].
  - unfold DeleteProof.kkeys, DeleteProof.fp. cbn [flat_map fst snd]. rewrite A1, A2. intros y Hy. ginapp.
    repeat match goal with H : _ \/ _ |- _ => destruct H end; try contradiction; try subst y; tauto.
Qed.

(* ---------- rebalance: inversion of a successful run ---------- *)
Lemma rebalance_inv mn index (cs : list (K * tree)) res :
  rebalance mn index cs = Ok res ->
  (exists pre s c sr r post c' r' rs, cs = pre ++ (s, c) :: (sr, r) :: post /\ index = length pre /\ mn < count r /\
      adopt_from_right c r = Ok (c', r') /\ smallest r' = Ok rs /\ res = (pre ++ (s, c') :: (rs, r') :: post, false)) \/
  (exists pre sl l s c post l' c' sm, cs = pre ++ (sl, l) :: (s, c) :: post /\ index = S (length pre) /\ mn < count l /\
      adopt_from_left l c = Ok (l', c') /\ smallest c' = Ok sm /\ res = (pre ++ (sl, l') :: (sm, c') :: post, false)) \/
  (exists pre sl l s c post t, cs = pre ++ (sl, l) :: (s, c) :: post /\ index = S (length pre) /\ count l <= mn /\
      absorb_right l c = Ok t /\ res = (pre ++ (sl, t) :: post, length (pre ++ (sl, t) :: post) <? mn)) \/
  (exists pre s c sr r post t, cs = pre ++ (s, c) :: (sr, r) :: post /\ index = length pre /\ count r <= mn /\
      absorb_right c r = Ok t /\ res = (pre ++ (s, t) :: post, length (pre ++ (s, t) :: post) <? mn)).
Proof.
  unfold rebalance. intros H.
  destruct (get_nth index cs) as [[s0 child]|] eqn:Eg; [|discriminate H]. cbn [bind] in H. cbv zeta in H.
  assert (Hnc : nth_error cs index = Some (s0, child)).
  { unfold get_nth in Eg. destruct (nth_error cs index); inversion Eg; reflexivity. }
  rewrite !Nat.add_1_r in H.
  set (RC := if S index <? length cs then match nth_error cs (S index) with Some (_, r) => count r | None => 0 end else 0) in *.
  set (LC := if 0 <? index then match nth_error cs (index - 1) with Some (_, l) => count l | None => 0 end else 0) in *.
  assert (Hright : 0 < RC -> exists A s2 rgt B, cs = A ++ (s0, child) :: (s2, rgt) :: B /\ index = length A /\ RC = count rgt).
  { intros H0. unfold RC in *. destruct (S index <? length cs) eqn:E; [|lia].
    destruct (nth_error cs (S index)) as [[s2 rgt]|] eqn:En; [|lia].
    destruct (EraseLemmas.nth_error_split2 _ _ _ _ Hnc En) as (A & B & HA & HB). exists A, s2, rgt, B. auto. }
  assert (Hleft : 0 < LC -> exists A s1 lft B, cs = A ++ (s1, lft) :: (s0, child) :: B /\ index = S (length A) /\ LC = count lft).
  { intros H0. unfold LC in *. destruct (0 <? index) eqn:E; [|lia]. apply Nat.ltb_lt in E.
    destruct index as [|j]; [lia|]. simpl in H0 |- *. rewrite Nat.sub_0_r in *.
    destruct (nth_error cs j) as [[s1 lft]|] eqn:En; [|lia].
    destruct (EraseLemmas.nth_error_split2 _ _ _ _ En Hnc) as (A & B & HA & HB). exists A, s1, lft, B. subst j. auto. }
  destruct ((S index <? length cs) && (mn <? RC)) eqn:B1.
  - apply andb_true_iff in B1. destruct B1 as [_ B1]. apply Nat.ltb_lt in B1.
    destruct Hright as (A & s2 & rgt & B & E & Hidx & HRC); [lia|].
    clearbody RC LC. subst cs.
    rewrite get_nth_at1 in H by lia. cbn [bind] in H.
    destruct (adopt_from_right child rgt) as [[c' r']|] eqn:Ead; [|discriminate H]. cbn [bind] in H.
    destruct (smallest r') as [rs|] eqn:Ers; [|discriminate H]. cbn [bind] in H.
    rewrite set_child_at in H by lia. rewrite set_nth_at1 in H by lia. inversion H; subst res; clear H.
    left. exists A, s0, child, s2, rgt, B, c', r', rs. gsplits; auto. lia.
  - destruct ((0 <? index) && (mn <? LC)) eqn:B2.
    + apply andb_true_iff in B2. destruct B2 as [_ B2]. apply Nat.ltb_lt in B2.
      destruct Hleft as (A & s1 & lft & B & E & Hidx & HLC); [lia|].
      clearbody RC LC. subst cs.
      assert (Hi1 : index - 1 = length A) by lia. rewrite Hi1 in *.
      rewrite get_nth_at in H by lia. cbn [bind] in H.
      destruct (adopt_from_left lft child) as [[l' c']|] eqn:Ead; [|discriminate H]. cbn [bind] in H.
      destruct (smallest c') as [sm|] eqn:Esm; [|discriminate H]. cbn [bind] in H.
      rewrite set_child_at in H by lia. rewrite set_nth_at1 in H by lia. inversion H; subst res; clear H.
      right. left. exists A, s1, lft, s0, child, B, l', c', sm. gsplits; auto. lia.
    + destruct (0 <? LC) eqn:B3.
      * apply Nat.ltb_lt in B3.
        destruct Hleft as (A & s1 & lft & B & E & Hidx & HLC); [lia|].
        assert (Hle : LC <= mn).
        { apply andb_false_iff in B2. destruct B2 as [B2|B2].
          - apply Nat.ltb_ge in B2. lia.
          - apply Nat.ltb_ge in B2. exact B2. }
        clearbody RC LC. subst cs.
        assert (Hi1 : index - 1 = length A) by lia. rewrite Hi1 in *.
        rewrite get_nth_at in H by lia. cbn [bind] in H.
        destruct (absorb_right lft child) as [z|] eqn:Eab; [|discriminate H]. cbn [bind] in H.
        rewrite set_child_at in H by lia. rewrite del_nth_at1 in H by lia. inversion H; subst res; clear H.
        right. right. left. exists A, s1, lft, s0, child, B, z. gsplits; auto. lia.
      * destruct (RC =? 0) eqn:B4; [discriminate H|].
        apply Nat.eqb_neq in B4.
        destruct Hright as (A & s2 & rgt & B & E & Hidx & HRC); [lia|].
        assert (Hle : RC <= mn).
        { apply andb_false_iff in B1. destruct B1 as [B1|B1].
          - unfold RC in B4. rewrite B1 in B4. lia.
          - apply Nat.ltb_ge in B1. exact B1. }
        clearbody RC LC. subst cs.
        rewrite get_nth_at1 in H by lia. cbn [bind] in H.
        destruct (absorb_right child rgt) as [z|] eqn:Eab; [|discriminate H]. cbn [bind] in H.
        rewrite set_child_at in H by lia. rewrite del_nth_at1 in H by lia. inversion H; subst res; clear H.
        right. right. right. exists A, s0, child, s2, rgt, B, z. gsplits; auto. lia.
Qed.

(* ---------- replacement of a subtree: what the enclosing tree keeps ---------- *)
Definition refines (a b : tree) : Prop :=
  forall d, ordered ltb a -> bal d a -> cap order a ->
    ordered ltb b /\ bal d b /\ cap order b /\ incl (allkeys b) (allkeys a).

Lemma refines_refl a : refines a a.
Proof. intros d O B C. gsplits0; auto. apply incl_refl. Qed.

Lemma refines_trans a b c : refines a b -> refines b c -> refines a c.
Proof.
  intros H1 H2 d O B C. destruct (H1 d O B C) as (O1 & B1 & C1 & I1).
  destruct (H2 d O1 B1 C1) as (O2 & B2 & C2 & I2). gsplits0; auto. eapply incl_tran; eauto.
Qed.

Lemma seg_refines pre mid mid' post :
  (forall d, NOrd mid -> Forall (bald d) mid -> Forall capk mid ->
     NOrd mid' /\ Forall (bald d) mid' /\ Forall capk mid' /\ incl (kkeys mid') (kkeys mid)) ->
  mid' <> [] -> length mid' <= length mid ->
  refines (Node (pre ++ mid ++ post)) (Node (pre ++ mid' ++ post)).
Proof.
  intros H Hne Hlen d O B C.
  apply ordered_node_iff in O. apply bal_node in B. destruct B as (d' & -> & _ & B).
  cbn [cap count] in C. destruct C as [Cc Ck]. rewrite akF in Ck.
  destruct (H d' (NOrd_mid _ _ _ O) (DeleteProof.Forall_mid _ _ _ _ B) (DeleteProof.Forall_mid _ _ _ _ Ck))
    as (O' & B' & C' & I').
  gsplits0.
  - apply ordered_node_iff. eapply NOrd_replace; eauto.
  - apply bal_node. exists d'. gsplits0; auto.
    + destruct pre; [|discriminate]. destruct mid'; [congruence|discriminate].
    + rewrite !Forall_app in *. tauto.
  - cbn [cap count]. split.
    + rewrite !app_length in *. lia.
    + rewrite akF. rewrite !Forall_app in *. tauto.
  - rewrite !allkeys_node, !kkeys_app. apply incl_app; [apply incl_appl, incl_refl|]. apply incl_appr.
    apply incl_app; [apply incl_appl; exact I'|apply incl_appr, incl_refl].
Qed.

Lemma refines_node pre s (a b : tree) post :
  refines a b -> refines (Node (pre ++ (s, a) :: post)) (Node (pre ++ (s, b) :: post)).
Proof.
  intros H. apply (seg_refines pre [(s, a)] [(s, b)] post); [|discriminate|simpl; lia].
  intros d [G _] B C. inversion G as [|? ? [Ga Oa] _]; subst. inversion B as [|? ? Ba _]; subst.
  inversion C as [|? ? Ca _]; subst. cbn [fst snd] in *.
  destruct (H d Oa Ba Ca) as (Ob & Bb & Cb & Ib). gsplits0.
  - split; [|cbn; split; [apply klt_nil_r|exact I]]. constructor; [|constructor]. split; cbn [fst snd]; [|exact Ob].
    eapply kle_incl; eauto.
  - constructor; auto.
  - constructor; auto.
  - unfold DeleteProof.kkeys, DeleteProof.fp. cbn [flat_map fst snd]. rewrite !app_nil_r.
    intros y [<-|Hy]; [left; reflexivity|right; apply Ib; exact Hy].
Qed.

(* ---------- rebalance refines the node ---------- *)
Lemma rebalance_refines index (cs : list (K * tree)) ecs' sm :
  (forall s c, nth_error cs index = Some (s, c) -> count c < m) ->
  rebalance m index cs = Ok (ecs', sm) ->
  refines (Node cs) (Node ecs') /\ (sm = true -> length ecs' < m).
Proof.
  intros Hsmall H. pose proof gmm as Hmm. pose proof gm2 as Hm2.
  destruct (rebalance_inv m index cs _ H) as
    [(pre & s & c & sr & r & post & c' & r' & rs & -> & -> & Hr & Ea & Es & E)|
     [(pre & sl & l & s & c & post & l' & c' & sm' & -> & -> & Hl & Ea & Es & E)|
      [(pre & sl & l & s & c & post & t & -> & -> & Hl & Ea & E)|
       (pre & s & c & sr & r & post & t & -> & -> & Hr & Ea & E)]]]; inversion E; subst ecs' sm; clear E.
  - (* borrow from the right *)
    assert (Hc : count c < m) by (apply (Hsmall s); apply nth_error_at; reflexivity).
    split; [|discriminate].
    apply (seg_refines pre [(s, c); (sr, r)] [(s, c'); (rs, r')] post); [|discriminate|simpl; lia].
    intros d O B C. inversion B as [|? ? Bc B']; subst. inversion B' as [|? ? Br _]; subst.
    inversion C as [|? ? Cc C']; subst. inversion C' as [|? ? Cr _]; subst. cbn [snd] in *.
    apply cap_iff in Cc, Cr. destruct Cc as [Cc Kc]. destruct Cr as [Cr Kr].
    destruct (adoptR_ok' d s c sr r O Bc Br Kc Kr) as (c2 & r2 & rs2 & E1 & E2 & O' & I' & Bc' & Br' & Kc' & Kr' & N1 & N2);
      [lia|].
    rewrite Ea in E1. inversion E1; subst c2 r2. rewrite Es in E2. inversion E2; subst rs2.
    gsplits0; auto; repeat constructor; cbn [snd]; auto; apply cap_iff; split; auto; lia.
  - (* borrow from the left *)
    assert (Hc : count c < m) by (apply (Hsmall s); apply nth_error_at1; reflexivity).
    split; [|discriminate].
    apply (seg_refines pre [(sl, l); (s, c)] [(sl, l'); (sm', c')] post); [|discriminate|simpl; lia].
    intros d O B C. inversion B as [|? ? Bl B']; subst. inversion B' as [|? ? Bc _]; subst.
    inversion C as [|? ? Cl C']; subst. inversion C' as [|? ? Cc _]; subst. cbn [snd] in *.
    apply cap_iff in Cc, Cl. destruct Cc as [Cc Kc]. destruct Cl as [Cl Kl].
    destruct (adoptL_ok' d sl l s c O Bl Bc Kl Kc) as (l2 & c2 & sm2 & E1 & E2 & O' & I' & Bl' & Bc' & Kl' & Kc' & N1 & N2);
      [lia|].
    rewrite Ea in E1. inversion E1; subst c2 l2. rewrite Es in E2. inversion E2; subst sm2.
    gsplits0; auto; repeat constructor; cbn [snd]; auto; apply cap_iff; split; auto; lia.
  - (* merge into the left sibling *)
    assert (Hc : count c < m) by (apply (Hsmall s); apply nth_error_at1; reflexivity).
    split; [|intros E; apply Nat.ltb_lt in E; exact E].
    apply (seg_refines pre [(sl, l); (s, c)] [(sl, t)] post); [|discriminate|simpl; lia].
    intros d O B C. inversion B as [|? ? Bl B']; subst. inversion B' as [|? ? Bc _]; subst.
    inversion C as [|? ? Cl C']; subst. inversion C' as [|? ? Cc _]; subst. cbn [snd] in *.
    apply cap_iff in Cc, Cl. destruct Cc as [Cc Kc]. destruct Cl as [Cl Kl].
    destruct (absorb_ok' d sl l s c O Bl Bc Kl Kc) as (t2 & E1 & O' & I' & Bt & Kt & Nt).
    rewrite Ea in E1. inversion E1; subst t2.
    gsplits0; auto; repeat constructor; cbn [snd]; auto; apply cap_iff; split; auto; lia.
  - (* merge the right sibling into the child *)
    assert (Hc : count c < m) by (apply (Hsmall s); apply nth_error_at; reflexivity).
    split; [|intros E; apply Nat.ltb_lt in E; exact E].
    apply (seg_refines pre [(s, c); (sr, r)] [(s, t)] post); [|discriminate|simpl; lia].
    intros d O B C. inversion B as [|? ? Bc B']; subst. inversion B' as [|? ? Br _]; subst.
    inversion C as [|? ? Cc C']; subst. inversion C' as [|? ? Cr _]; subst. cbn [snd] in *.
    apply cap_iff in Cc, Cr. destruct Cc as [Cc Kc]. destruct Cr as [Cr Kr].
    destruct (absorb_ok' d s c sr r O Bc Br Kc Kr) as (t2 & E1 & O' & I' & Bt & Kt & Nt).
    rewrite Ea in E1. inversion E1; subst t2.
    gsplits0; auto; repeat constructor; cbn [snd]; auto; apply cap_iff; split; auto; lia.
Qed.

(* ---------- the leaf step ---------- *)
Lemma leaf_delete_small k (es es' : list (K * V)) small :
  leaf_delete ltb m k es = Ok (es', small) -> length es' <= length es /\ (small = true -> length es' < m).
Proof.
  unfold leaf_delete. intros H.
  destruct (search_ge ltb k (map fst es)) as [index|]; [|discriminate H]. cbn [bind] in H.
  destruct (nth_error es index) as [[k0 v]|] eqn:En.
  - destruct (eqvb ltb k k0).
    + cbv zeta in H. inversion H; subst; clear H. split.
      * unfold del_nth. rewrite app_length, firstn_length, skipn_length. lia.
      * intros E. apply Nat.ltb_lt in E. exact E.
    + inversion H; subst. split; [lia|discriminate].
  - inversion H; subst. split; [lia|discriminate].
Qed.

Lemma leaf_delete_refines k (es es' : list (K * V)) small :
  leaf_delete ltb m k es = Ok (es', small) -> refines (Leaf es) (Leaf es').
Proof.
  intros H d O B C. cbn [ordered] in O.
  destruct (DeleteProof.leaf_delete_ok K V ltb HS order H4 k es O) as (es2 & small2 & E & _ & Ha & Hi & Hl & _).
  rewrite H in E. inversion E; subst es2 small2; clear E.
  gsplits0.
  - exact Ha.
  - eapply bal_leaf_any; exact B.
  - cbn [cap count] in *. split; [|exact I]. destruct (leaf_delete_small k es es' small H). lia.
  - exact Hi.
Qed.

(* ---------- the root collapse ---------- *)
Lemma root_collapse s (c : tree) d :
  ordered ltb (Node [(s, c)]) -> bal d (Node [(s, c)]) -> cap order (Node [(s, c)]) ->
  ordered ltb c /\ (exists d', bal d' c) /\ cap order c.
Proof.
  intros O B C. apply ordered_node_iff in O. destruct O as [G _]. inversion G as [|? ? [_ Oc] _]; subst.
  apply bal_node in B. destruct B as (d' & _ & _ & B). inversion B as [|? ? Bc _]; subst.
  cbn [cap] in C. destruct C as [_ [Cc _]]. cbn [snd] in *. gsplits0; eauto.
Qed.

End S.

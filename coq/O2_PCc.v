(* O2_PCc.v — PCc_Proof's pc_ok2_step / pc_ok3_step / decided_other_step for even order >= 2 (4 <= order is used there
   only for 1 <= div2 order in o_bm).  Scripts copied from PCc_Proof.v (Section Other and the theorems). *)
From Coq Require Import List Permutation Lia Bool PeanoNat.
From GB Require Import ListLemmas TreeLemmas Inv InvProof Conc GI CInv CInv3 CIDef NoDeadlock Lin LinDef Frame LockProof ConcProps
  UpdLemmas FrameRel FrameInv FrameBlocks FrameProof SoloBase
  PCb1_Blocks PCb1_Proof PCb2_Bounds PCb2_View PCb2_Blocks PCb2_Step PCb2_Proof PCb2_Tree PCb2_RightFree
  OCCc_Blocks OCCc_Proof OCCc_Op GIa1_Proof GIa2_Proof
  PCc_Low PCc_Step PCc_Own PCc_Proof O2_Crash.
Import ListNotations.

Section Main.
Variables (K V : Type) (ltb : K -> K -> bool).
Hypothesis HS : SWO ltb.
Notation itree := (itree K V).
Notation pc := (pc K V).
Notation st := (st K V).
Notation out := (out K V).
Notation thread := (thread K V).
Notation find := (@Conc.find K V).

Local Notation Base := (PCc_Proof.Base K V ltb).
Local Notation forallb_step := (PCc_Proof.forallb_step K V).
Local Notation get_all := (PCc_Proof.get_all K V).
Local Notation granted_in := PCc_Proof.granted_in.
Local Notation step_threads := (PCc_Proof.step_threads K V ltb).

Section Other.
Variables (order : nat) (s s' : st) (me : tid) (acq : option (option id)) (ev : list (event K V)) (t : tid) (th : thread).
Hypothesis Hev : Nat.even order = true.
Hypothesis Hord2 : 2 <= order.
Hypothesis HB : Base order s.
Hypothesis Hstep : cstep ltb order s me = Stepped s' acq ev.
Hypothesis Hne : t <> me.
Hypothesis Hget : get_thread t (ths s) = Some th.

Let HCI : CIfull ltb order s := proj1 (proj1 HB).
Let Hinv : all_inv K V s := proj1 (proj2 (proj1 HB)).

Lemma o_lossless_nd : lossless order (tr s).
Proof. pose proof HCI as [[HGI _] _]. apply (GI_lossless K V ltb order s Hev HGI). Qed.

Lemma o_pc_ok_nd : pc_ok_b ltb order (tr s) (tpc th) = true.
Proof. pose proof HCI as [[_ [_ Hall]] _]. apply (get_all _ _ _ _ Hall Hget). Qed.

Lemma o_nodup_nd : NoDup (ids (tr s)).
Proof. pose proof Hinv as [[H _] _]. exact H. Qed.

Lemma o_nodupP_nd : NoDup (ids (tr s')).
Proof.
  pose proof Hinv as (I1 & I2 & I3). destruct (ids_ok_step K V ltb order s s' me acq ev I1 I2 I3 Hstep) as [H _]. exact H.
Qed.

(* the fields of a node the thread holds do not change *)
Lemma o_view_nd x : In x (pc_nodes (tpc th)) -> In x (ids (tr s)) -> node_view x (tr s') = node_view x (tr s).
Proof. intros Hx Hin. eapply (held_view_stable K V ltb order s s' me acq ev t th x); eauto. apply o_lossless_nd. Qed.

(* a node the thread holds is outside the write set of the step *)
Lemma o_notin_wset_nd x : In x (pc_nodes (tpc th)) -> In x (ids (tr s)) -> ~ In x (wset K V s me acq).
Proof.
  intros Hx Hin. pose proof Hinv as ([_ Hlt] & Hli2 & _). pose proof Hli2 as [Hli _].
  pose proof Hli as (_ & _ & _ & _ & Hth). destruct (Hth t th Hget) as (_ & HPt & _).
  assert (Hxt : In x (held_by t (lk s))) by (eapply Permutation_in; [apply Permutation_sym; exact HPt | exact Hx]).
  unfold wset. rewrite !in_app_iff. intros [[X|X]|X].
  - apply Hne. eapply (locks_exclusive K V s x t me); eauto.
  - apply granted_in in X. pose proof Hstep as Hs2. rewrite X in Hs2.
    eapply (granted_was_free K V ltb order s s' me x ev t); eauto.
  - rewrite Forall_forall in Hlt. apply Hlt in Hin. simpl in X. lia.
Qed.

Lemma o_bm_nd : bm ltb (wset K V s me acq) (tr s) (tr s').
Proof.
  pose proof HCI as [[HGI _] _]. pose proof Hinv as (Hids & Hli2 & Hfi).
  assert (HJ : J ltb (tr s)).
  { destruct HGI as (_ & _ & Ho & Hb & _). eapply J_of_ordered; eauto. }
  assert (Hord : 1 <= Nat.div2 order) by (apply div2_ge1; assumption).
  apply (cstep_bm K V ltb HS order s s' me acq ev Hord Hids Hli2 Hfi o_lossless_nd HJ Hstep).
Qed.

Lemma o_bl_nd : bl (wset K V s me acq) (tr s) (tr s').
Proof. pose proof Hinv as (Hids & Hli2 & Hfi). apply (cstep_bl K V ltb order s s' me acq ev Hids Hli2 Hfi o_lossless_nd Hstep). Qed.

(* ---- 1. adjacency ---- *)
Lemma other_pc_ok2_nd : pc_ok2_b (tr s') (tpc th) = true.
Proof.
  assert (Hok2 : pc_ok2_b (tr s) (tpc th) = true).
  { pose proof HB as [(_ & _ & _ & H2 & _) _]. apply (get_all _ _ _ _ H2 Hget). }
  apply (pc_ok2_view K V (tr s) (tr s') (tpc th)); [| |exact Hok2].
  - intros o pn c r E. apply o_view_nd; [rewrite E; simpl; auto|].
    rewrite E in Hok2. simpl in Hok2. destruct (find pn (tr s)) eqn:Ef; [eapply find_in_ids; eauto | discriminate Hok2].
  - intros o l r E.
    pose proof HB as [_ (_ & _ & Hrfb)]. pose proof Hinv as (I1 & Hli2 & I3). pose proof Hli2 as [Hli _].
    pose proof (proj1 (rfi_b_iff K V s (ths_nodup K V s Hli2)) Hrfb t th Hget) as Hr. rewrite E in Hr. simpl in Hr.
    destruct Hr as (_ & _ & Hroot & Hhr & Hnw).
    pose proof Hli as (_ & _ & _ & _ & Hth). destruct (Hth t th Hget) as (_ & _ & HTt).
    assert (Htm : tm s = Some t) by (apply HTt; rewrite E; reflexivity).
    destruct (cstep_target K V ltb order s s' me acq ev Hstep) as [thm [Hgm Htg]].
    assert (Hrid : nid (tr s') = nid (tr s)).
    { destruct (Nat.eq_dec (nid (tr s')) (nid (tr s))) as [X|X]; [exact X|]. exfalso.
      pose proof (root_frame_strong K V ltb order s s' me acq ev Hli2 Hstep X) as Hm. rewrite Htm in Hm. inversion Hm. auto. }
    assert (Hvroot : node_view (nid (tr s)) (tr s') = node_view (nid (tr s)) (tr s)).
    { eapply step_frame; eauto.
      - apply o_lossless_nd.
      - apply nid_in_ids.
      - intro X. apply In_held_by in X. eapply in_holder; eauto.
      - intro X. subst acq. specialize (Hnw me thm Hgm). unfold PCb2_Proof.wants in Hnw. rewrite Htg, Nat.eqb_refl in Hnw. discriminate. }
    apply (root_is_transfer K V (tr s) (tr s') l r Hrid Hvroot Hroot).
Qed.

(* ---- 2. routes ---- *)
Lemma other_pc_ok3_nd : pc_ok3_b ltb (tr s') (tpc th) = true.
Proof.
  assert (Hok3 : pc_ok3_b ltb (tr s) (tpc th) = true).
  { pose proof HB as [(_ & _ & _ & _ & H3) _]. apply (get_all _ _ _ _ H3 Hget). }
  pose proof o_pc_ok_nd as Hok.
  assert (Hdel : forall (o : cop K V) stk, pc_nodes (tpc th) = frames_nodes stk -> frames_ok_b (tr s) stk = true ->
            frames_idx_b ltb (key_of o) (tr s) stk = true -> frames_idx_b ltb (key_of o) (tr s') stk = true).
  { intros o stk Hpn Hfo Hfi. apply (frames_idx_view K V ltb _ (tr s) (tr s') stk); [|exact Hfi].
    intros g Hg. apply o_view_nd.
    - rewrite Hpn. eapply frames_fp_in; eauto.
    - exact (proj1 (frames_in_tree K V (tr s) o_nodup_nd stk Hfo g Hg)). }
  destruct (tpc th) as [ |o|o r0|o l r|o pn c index|o p c r|o leaf mode index|o pn c|o stk|o stk|o stk|leaf i n acc|leaf nxt n acc] eqn:Ept;
    try reflexivity.
  - (* SeaWantChild *)
    simpl in Hok3, Hok |- *. apply andb_prop in Hok3. destruct Hok3 as [Hb Hc].
    destruct (find pn (tr s)) as [[?|pi cs]|] eqn:Hf; try discriminate Hc.
    assert (Hin : In pn (ids (tr s))) by (eapply find_in_ids; eauto).
    assert (Hpn : In pn (pc_nodes (tpc th))) by (rewrite Ept; simpl; auto).
    rewrite (below_hi_bm K V ltb _ (key_of o) pn (tr s) (tr s') o_bm_nd (o_notin_wset_nd pn Hpn Hin) Hb). simpl.
    destruct (PCb1_Blocks.view_node K V (tr s) (tr s') pn pi cs (o_view_nd pn Hpn Hin) Hf) as (i' & cs' & Hf' & Hp).
    rewrite Hf', (ptrs_seps K V _ _ Hp).
    destruct (search_le ltb (key_of o) (map fst cs)) as [j|]; [|discriminate Hc].
    rewrite (ptrs_nth K V _ _ Hp). exact Hc.
  - simpl in Hok3, Hok |- *. apply (Hdel o stk); auto.
  - simpl in Hok3, Hok |- *. apply (Hdel o stk); auto.
  - simpl in Hok3, Hok |- *. apply andb_prop in Hok. destruct Hok as [Hok _]. apply (Hdel o stk); auto.
Qed.

(* ---- 3. decided ---- *)
Lemma other_below_lo_nd k pn : In pn (pc_nodes (tpc th)) -> In pn (ids (tr s)) ->
  below_lo ltb k pn (tr s') = below_lo ltb k pn (tr s).
Proof.
  intros Hpn Hin. apply (below_lo_bl K V ltb (wset K V s me acq)); auto.
  - apply o_nodup_nd.
  - apply o_nodupP_nd.
  - apply o_bl_nd.
  - apply o_notin_wset_nd; auto.
Qed.

End Other.

Lemma both_step_nd : forall order (s s' : st) me acq ev,
  Nat.even order = true -> 2 <= order -> Base order s ->
  cstep ltb order s me = Stepped s' acq ev -> all_pc_ok2_b s' = true /\ all_pc_ok3_b ltb s' = true.
Proof.
  intros order s s' me acq ev Hev H4 HB Hs.
  destruct (step_threads order s s' me acq ev Hs) as (th & o & Hme & Htg & Hfree & Hblk & E & _).
  pose proof HB as [(HCI & Hinv & _ & _ & H3) _].
  assert (Hnd : NoDup (map fst (ths s))) by (apply (ths_nodup K V s (proj1 (proj2 Hinv)))).
  destruct (own_core23 K V ltb HS order s me th acq o HCI Hinv Hme Htg Hfree (get_all _ _ _ _ H3 Hme) Hblk) as [O2 O3].
  assert (Htr : tr s' = otr o) by (subst s'; reflexivity).
  unfold all_pc_ok2_b, all_pc_ok3_b. rewrite Htr. subst s'. unfold commit. cbn [ths].
  split; apply forallb_step.
  - cbn [snd]. destruct (returned (oev o)); exact O2.
  - intros [t tht] Hin Hne. cbn [fst snd] in *. rewrite <- Htr.
    eapply (other_pc_ok2_nd order s _ me acq ev t tht); eauto. apply in_get_thread; auto.
  - cbn [snd]. destruct (returned (oev o)); exact O3.
  - intros [t tht] Hin Hne. cbn [fst snd] in *. rewrite <- Htr.
    eapply (other_pc_ok3_nd order s _ me acq ev t tht); eauto. apply in_get_thread; auto.
Qed.

(* 1. the adjacency facts used by the deadlock-freedom proof *)
Theorem pc_ok2_step_nd : forall order (s s' : st) me acq ev,
  Nat.even order = true -> 2 <= order -> Base order s ->
  cstep ltb order s me = Stepped s' acq ev -> all_pc_ok2_b s' = true.
Proof. intros. eapply (proj1 (both_step_nd order s s' me acq ev _ _ _ _)). Unshelve. all: assumption. Qed.

(* 2. the route facts used by the linearizability proof *)
Theorem pc_ok3_step_nd : forall order (s s' : st) me acq ev,
  Nat.even order = true -> 2 <= order -> Base order s ->
  cstep ltb order s me = Stepped s' acq ev -> all_pc_ok3_b ltb s' = true.
Proof. intros. eapply (proj2 (both_step_nd order s s' me acq ev _ _ _ _)). Unshelve. all: assumption. Qed.

(* 3. a step of me does not change whether ANOTHER thread's Search is decided *)
Theorem decided_other_step_nd : forall order (s s' : st) me acq ev t,
  Nat.even order = true -> 2 <= order -> Base order s ->
  cstep ltb order s me = Stepped s' acq ev -> t <> me -> decided ltb s' t = decided ltb s t.
Proof.
  intros order s s' me acq ev t Hev H4 HB Hs Hne.
  destruct (step_threads order s s' me acq ev Hs) as (_ & _ & _ & _ & _ & _ & _ & Hoth).
  unfold decided. rewrite (Hoth t Hne).
  destruct (get_thread t (ths s)) as [th|] eqn:Hg; [|reflexivity].
  destruct (tpc th) as [ |o|o r0|o l r|o pn c index|o p c r|o leaf mode index|o pn c|o stk|o stk|o stk|leaf i n acc|leaf nxt n acc] eqn:Ept;
    try reflexivity.
  destruct o as [| | |k|]; try reflexivity.
  pose proof (o_pc_ok_nd order s t th HB Hg) as Hok. rewrite Ept in Hok. simpl in Hok.
  assert (A1 : In pn (pc_nodes (tpc th))) by (rewrite Ept; simpl; auto).
  assert (A2 : In pn (ids (tr s))).
  { destruct (find pn (tr s)) eqn:Ef; [eapply find_in_ids; eauto | discriminate Hok]. }
  eapply (other_below_lo_nd order s s' me acq ev t th); eauto.
Qed.


End Main.

Print Assumptions pc_ok2_step_nd.
Print Assumptions pc_ok3_step_nd.
Print Assumptions decided_other_step_nd.

(* orderdriver.ml — evaluates the extracted check_order on decimal integers (parsed with Zarith, converted
   bit by bit into Coq's Z) and prints accept/reject. *)
let rec pos_of_z (n : Z.t) : Gbmodel.positive =
  if Z.equal n Z.one then Gbmodel.XH
  else if Z.equal (Z.logand n Z.one) Z.zero then Gbmodel.XO (pos_of_z (Z.shift_right n 1))
  else Gbmodel.XI (pos_of_z (Z.shift_right n 1))
let coq_z (n : Z.t) : Gbmodel.z =
  if Z.sign n = 0 then Gbmodel.Z0 else if Z.sign n > 0 then Gbmodel.Zpos (pos_of_z n) else Gbmodel.Zneg (pos_of_z (Z.neg n))
let () =
  let ic = open_in Sys.argv.(1) and oc = open_out Sys.argv.(2) in
  (try while true do
    let s = String.trim (input_line ic) in
    if s <> "" then Printf.fprintf oc "%s %s\n" s (if Gbmodel.h_check_order (coq_z (Z.of_string s)) then "accept" else "reject")
  done with End_of_file -> ());
  close_out oc

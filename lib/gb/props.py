"""Dispatch: property id -> check."""
from . import props_seq


def run(pid, tier, seed):
    if pid in ("C01", "C02", "C08", "C11"):
        return props_seq.run_seq_property(pid, tier, seed)
    raise SystemExit("unknown property " + pid)

(* TBs_Def.v — linearizability in the sense of Herlihy and Wing for histories that contain, besides the invocations
   and responses of the point operations, the responses of the individual Scan steps of a cursor (property C04 in its
   textbook form: "each Scan step behaves as an atomic successor query taking effect between that step's call and
   return; for the first step, between the NewScanner call and the first Scan's return").  Definitions only, in the
   style of TB_HW.v.  See the summary at the end of the file. *)
From Coq Require Import List Bool PeanoNat Lia.
From GB Require Import Model Spec Conc LinDef TB_Trace.
Import ListNotations.

Section Def.
Variables (K V : Type) (ltb : K -> K -> bool).
Notation cop := (cop K V).
Notation ores := (ores K V).

(* ================================================================================================ *)
(* histories                                                                                         *)
(* ================================================================================================ *)
(* an event of a history: thread t invokes call o (for [CScan k cnt] this is the NewScanner call) / thread t
   receives the response r of its call / a Scan step of thread t returned the pair e / a Scan step of thread t
   returned false *)
Inductive hev := HInv (t : tid) (o : cop) | HRes (t : tid) (r : ores) | HPair (t : tid) (e : K * V) | HEnd (t : tid).
Definition history := list hev.
Definition hev_tid (e : hev) : tid := match e with HInv t _ | HRes t _ | HPair t _ | HEnd t => t end.

(* ================================================================================================ *)
(* the sequential specification: the ideal map of Spec.v extended with read-only successor queries    *)
(* ================================================================================================ *)
(* [QFirst k]: the pair with the least key not below k;  [QNext k0]: the pair with the least key above k0 *)
Inductive qry := QFirst (k : K) | QNext (k0 : K).

(* on an ascending association list: the first pair whose key is not below k / is above k0; None = "end" *)
Fixpoint first_ge (k : K) (m : list (K * V)) : option (K * V) :=
  match m with
  | [] => None
  | (k', v) :: r => if ltb k' k then first_ge k r else Some (k', v)
  end.
Fixpoint first_gt (k0 : K) (m : list (K * V)) : option (K * V) :=
  match m with
  | [] => None
  | (k', v) :: r => if ltb k0 k' then Some (k', v) else first_gt k0 r
  end.
Definition qry_ans (m : list (K * V)) (q : qry) : option (K * V) :=
  match q with QFirst k => first_ge k m | QNext k0 => first_gt k0 m end.

(* first_ge is the head of what a scan from k must yield (Spec.from) *)
Lemma first_ge_from k m : first_ge k m = hd_error (from ltb k m).
Proof. induction m as [|[k' v] r IH]; simpl; [reflexivity|]. destruct (ltb k' k); [exact IH|reflexivity]. Qed.

(* an action of the sequential specification and its answer: a point operation of Spec.v or a query *)
Inductive act := AOp (po : op K V) | AQry (q : qry).
Inductive ans := ROp (x : obs V) | RQry (a : option (K * V)).

Definition step_q (m : list (K * V)) (a : act) : list (K * V) * ans :=
  match a with
  | AOp po => (fst (step_spec ltb m po), ROp (snd (step_spec ltb m po)))
  | AQry q => (m, RQry (qry_ans m q))                       (* queries do not change the map *)
  end.
Fixpoint run_q (m : list (K * V)) (l : list act) : list (K * V) * list ans :=
  match l with
  | [] => (m, [])
  | a :: l' => let '(m', x) := step_q m a in let '(m'', xs) := run_q m' l' in (m'', x :: xs)
  end.

(* ================================================================================================ *)
(* operations of a history and their intervals                                                       *)
(* ================================================================================================ *)
(* n is the position of the next event of thread t after position a *)
Definition next_ev (h : history) (t : tid) (a n : nat) : Prop :=
  a < n /\ forall j e, a < j < n -> nth_error h j = Some e -> hev_tid e <> t.

(* a Scan step of thread t begins at position a, and it is the query q:
   step 1 begins at the NewScanner call, step j+1 at the response of step j (the call of the next Scan comes after
   the return of the previous one, so this is the widest interval the property allows) *)
Inductive step_start (h : history) (a : nat) (t : tid) : qry -> Prop :=
| SS_first k cnt : nth_error h a = Some (HInv t (CScan k cnt)) -> step_start h a t (QFirst k)
| SS_next e0 : nth_error h a = Some (HPair t e0) -> step_start h a t (QNext (fst e0)).

(* the event at n is the response of a Scan step of thread t, with this answer *)
Inductive step_resp (h : history) (n : nat) (t : tid) : option (K * V) -> Prop :=
| SR_pair e : nth_error h n = Some (HPair t e) -> step_resp h n t (Some e)
| SR_end : nth_error h n = Some (HEnd t) -> step_resp h n t None.

(* the action c (of some thread) begins at position a of h *)
Inductive starts (h : history) (a : nat) : act -> Prop :=
| St_op t o po : nth_error h a = Some (HInv t o) -> spec_op o = Some po -> starts h a (AOp po)
| St_step t q : step_start h a t q -> starts h a (AQry q).

(* a completed operation of h: its interval is [a, n], its action c, and its response r in h *)
Inductive completed_q (h : history) (a n : nat) : act -> ans -> Prop :=
| CQ_op t o po x :
    nth_error h a = Some (HInv t o) -> spec_op o = Some po ->
    nth_error h n = Some (HRes t (ores_of_obs K x)) -> next_ev h t a n -> completed_q h a n (AOp po) (ROp x)
| CQ_step t q r :
    step_start h a t q -> step_resp h n t r -> next_ev h t a n -> completed_q h a n (AQry q) (RQry r).

(* ================================================================================================ *)
(* the sequential witness and linearizability                                                        *)
(* ================================================================================================ *)
(* an item of the sequential witness: the position in h at which its interval STARTS, its action and its answer
   (for an operation pending in h the answer is the response appended in Herlihy and Wing's extension of h) *)
Definition item : Type := nat * act * ans.
Definition i_start (e : item) : nat := fst (fst e).
Definition i_act (e : item) : act := snd (fst e).
Definition i_ans (e : item) : ans := snd e.

(* (a) S consists of operations / Scan steps of h, each at most once *)
Definition items_of_history (h : history) (S : list item) : Prop :=
  NoDup (map i_start S) /\ forall e, In e S -> starts h (i_start e) (i_act e).

(* (b) S contains every completed point operation and every Scan step with a response in h, with that response *)
Definition complete_q (h : history) (S : list item) : Prop :=
  forall a n c r, completed_q h a n c r -> In (a, c, r) S.

(* (c) running the items in order from the empty map gives exactly the recorded answers *)
Definition seq_legal_q (S : list item) : Prop := snd (run_q [] (map i_act S)) = map i_ans S.

(* (d) real-time order: the operation starting at a1 ends before (or, for consecutive steps of one scan, exactly
   where) the operation starting at a2 begins.  n1 = a2 happens only when both positions are the same HPair event,
   i.e. for step j and step j+1 of the same scan. *)
Definition precedes_q (h : history) (a1 a2 : nat) : Prop :=
  exists n1 c r, completed_q h a1 n1 c r /\ n1 <= a2.
Definition respects_rt_q (h : history) (S : list item) : Prop :=
  forall S1 e2 S2 e1, S = S1 ++ e2 :: S2 -> In e1 S2 -> ~ precedes_q h (i_start e1) (i_start e2).

Definition linearizable_q (h : history) : Prop :=
  exists S, items_of_history h S /\ complete_q h S /\ seq_legal_q S /\ respects_rt_q h S.

(* ================================================================================================ *)
(* the history (with scan steps) of a trace                                                          *)
(* ================================================================================================ *)
Definition qhev_of (t : tid) (e : event K V) : hev :=
  match e with EInvoke o => HInv t o | EReturn r => HRes t r | EPair p => HPair t p | EScanEnd => HEnd t end.
Definition qrec_hist (r : irec K V) : list hev := map (qhev_of (r_tid r)) (r_ev r).
Definition qhistory_of (T : list (irec K V)) : history := flat_map qrec_hist T.

End Def.

Arguments HInv {K V} t o.
Arguments HRes {K V} t r.
Arguments HPair {K V} t e.
Arguments HEnd {K V} t.
Arguments hev_tid {K V} e.
Arguments QFirst {K} k.
Arguments QNext {K} k0.
Arguments first_ge {K V} ltb k m.
Arguments first_gt {K V} ltb k0 m.
Arguments qry_ans {K V} ltb m q.
Arguments AOp {K V} po.
Arguments AQry {K V} q.
Arguments ROp {K V} x.
Arguments RQry {K V} a.
Arguments step_q {K V} ltb m a.
Arguments run_q {K V} ltb m l.
Arguments next_ev {K V} h t a n.
Arguments step_start {K V} h a t _.
Arguments step_resp {K V} h n t _.
Arguments starts {K V} h a _.
Arguments completed_q {K V} h a n _ _.
Arguments i_start {K V} e.
Arguments i_act {K V} e.
Arguments i_ans {K V} e.
Arguments items_of_history {K V} h S.
Arguments complete_q {K V} h S.
Arguments seq_legal_q {K V} ltb S.
Arguments precedes_q {K V} h a1 a2.
Arguments respects_rt_q {K V} h S.
Arguments linearizable_q {K V} ltb h.
Arguments qhev_of {K V} t e.
Arguments qrec_hist {K V} r.
Arguments qhistory_of {K V} T.

(* SUMMARY.  Definitions only.
   hev := HInv t o | HRes t r | HPair t e | HEnd t;  qhistory_of T keeps every event of every record of the trace T
   (EInvoke -> HInv, EReturn -> HRes, EPair -> HPair, EScanEnd -> HEnd), tagged with the record's thread, in order.
   Operations of a history h and their intervals [a, n] (n = the next event of the same thread after a):
     point operation : h[a] = HInv t o (spec_op o = Some po), h[n] = HRes t r;          action AOp po, answer ROp x
                       with ores_of_obs x = r
     Scan step 1     : h[a] = HInv t (CScan k cnt),           h[n] = HPair t e / HEnd t; action AQry (QFirst k)
     Scan step j+1   : h[a] = HPair t e0 (response of step j), h[n] = HPair t e / HEnd t; action AQry (QNext (fst e0))
                       answer RQry (Some e) / RQry None
   (a scan whose next event after a start is HRes -- the cursor was closed -- has no step there).
   Sequential specification: run_q ltb m acts runs point operations through Spec.step_spec and answers queries with
     qry_ans ltb m (QFirst k) = first_ge ltb k m   (first pair of m whose key is not below k; = hd_error (from ltb k m))
     qry_ans ltb m (QNext k0) = first_gt ltb k0 m  (first pair of m whose key is above k0)
   without changing m (m is ascending: these are the least such pairs, see TBs_Spec.v).
   item := (start position, action, answer);
     items_of_history h S := NoDup (map i_start S) /\ every item's action starts at its position in h         (a)
     complete_q h S       := completed_q h a n c r -> In (a, c, r) S                                           (b)
     seq_legal_q ltb S    := snd (run_q ltb [] (map i_act S)) = map i_ans S                                     (c)
     respects_rt_q h S    := S = S1 ++ e2 :: S2 -> In e1 S2 -> ~ precedes_q h (i_start e1) (i_start e2)         (d)
       precedes_q h a1 a2 := the operation starting at a1 is completed at some n1 <= a2
     linearizable_q ltb h := exists S, (a) /\ (b) /\ (c) /\ (d). *)

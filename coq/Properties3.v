(* Properties3.v — property theorems added after defect D6: the exactly-once callback of Update (C05) the
   textbook (Herlihy-Wing) form of C04 (histories with every Scan step as an operation of its own), and global
   termination (C06): every execution of a finite set of client programs is finite and ends with every call returned.
   Only statements, each closed by [exact] of a lemma proved elsewhere, each followed by Print Assumptions. *)
From Coq Require Import List PeanoNat.
From GB Require Import Model Spec SpecLaws Inv Conc GI Lin LinDef CB_Blocks CB_Count CB_Final.
From GB Require Import TB_Trace TBs_Def TBs_Sanity TBs_Proof.
From GB Require Import TG_Finite TG_Stuck TG_Final.
From GB Require Import Order HistoryProof ConcProps Frame LockInv AUD_Proof.
From Coq Require Import ZArith.
From GB Require Import O2_NoDel TB_HW TB_Counter O2b_TB O2b_CB.
Import ListNotations.

(* ====================== C05: the callback of Update runs exactly once, on the current value ====================== *)
Section C05.
Variables (K V : Type) (ltb : K -> K -> bool).
Hypothesis HS : SWO ltb.
Variable order : nat.
Hypothesis Heven : Nat.even order = true.
Hypothesis H4 : 4 <= order.
Variable progs : list (tid * list (cop K V)).
Hypothesis Hnd : NoDup (map fst progs).
Variable sched0 : list tid.
Let s := fst (exec ltb order (init_st progs) sched0).

(* In the model the callback f of Update(k, f) is applied only by the step taken from pc UpdCallback (the goroutine
   is parked inside the callback, holding the leaf).  That step belongs to an Update call, is the call's last step,
   hands f the value currently bound to k in the tree's contents (None when k is absent), stores f's result as
   the value of k, is the call's linearization point, and returns. *)
Theorem C05_callback_sees_current_value_and_stores_result : forall s' t th o leaf mode index acq ev,
  get_thread t (ths s) = Some th -> tpc th = UpdCallback o leaf mode index ->
  cstep ltb order s t = Stepped s' acq ev ->
  exists k f th',
    let arg := lookup ltb k (abs ltb s) in
    o = CUpdate k f /\ hd_error (prog th) = Some o /\ acq = None /\
    get_thread t (ths s') = Some th' /\ tpc th' = Idle /\ prog th' = tl (prog th) /\
    results th' = RArg K arg :: results th /\
    ev = [EReturn (RArg K arg)] /\
    lp_step ltb s t acq ev s' = Some (OUpdate k f) /\
    abs ltb s' = put ltb k f (abs ltb s) /\
    lookup ltb k (abs ltb s') = Some (f arg) /\
    exists k', eqv ltb k k' /\ In (k', f arg) (abs ltb s').
Proof. exact (C05_callback_step K V ltb HS order Heven H4 progs Hnd sched0). Qed.

(* exactly once: from the invocation of an Update to its return, its thread takes exactly one callback step,
   whatever the other threads do *)
Theorem C05_callback_exactly_once : forall sched t th th2 k f rest,
  get_thread t (ths s) = Some th -> tpc th = Idle -> prog th = CUpdate k f :: rest ->
  get_thread t (ths (fst (exec ltb order s sched))) = Some th2 -> prog th2 = rest ->
  cb_steps K V ltb order t s sched = 1.
Proof. exact (C05_exactly_once K V ltb HS order Heven H4 progs Hnd sched0). Qed.

(* not before the call returns: while the Update is still in flight the callback has not run *)
Theorem C05_callback_not_before_the_store : forall sched t th th2 k f rest,
  get_thread t (ths s) = Some th -> prog th = CUpdate k f :: rest ->
  get_thread t (ths (fst (exec ltb order s sched))) = Some th2 -> prog th2 = CUpdate k f :: rest ->
  cb_steps K V ltb order t s sched = 0.
Proof. exact (C05_not_before K V ltb HS order Heven H4 progs Hnd sched0). Qed.

(* in general: over any stretch of any execution, the number of callback steps of a thread is the number of Update
   calls it has completed, and the number of its return events is the number of calls it has completed *)
Theorem C05_callbacks_are_completed_updates : forall sched t th,
  get_thread t (ths s) = Some th ->
  exists th2 pre,
    get_thread t (ths (fst (exec ltb order s sched))) = Some th2 /\
    prog th = pre ++ prog th2 /\
    cb_steps K V ltb order t s sched = count_upd pre /\
    ret_steps K V t (snd (exec ltb order s sched)) = length pre.
Proof. exact (C05_count K V ltb HS order Heven H4 progs Hnd sched0). Qed.
End C05.

(* exactly-once needs nothing about the key order or the tree's order: it holds for EVERY order (2, 3, ... as well)
   and every comparison function, whatever the other threads do, as long as the execution goes on *)
Theorem C05_callback_exactly_once_every_order :
  forall (K V : Type) (ltb : K -> K -> bool) (order : nat) (progs : list (tid * list (cop K V))) sched0 sched t th th2 k f rest,
  let s := fst (exec ltb order (init_st progs) sched0) in
  get_thread t (ths s) = Some th -> prog th = CUpdate k f :: rest ->
  get_thread t (ths (fst (exec ltb order s sched))) = Some th2 -> prog th2 = rest ->
  cb_steps K V ltb order t s sched = 1.
Proof.
  intros K V ltb order progs sched0 sched t th th2 k f rest s.
  exact (update_once K V ltb order sched s t th th2 k f rest (call_ok_reachable K V ltb order progs sched0)).
Qed.

Print Assumptions C05_callback_sees_current_value_and_stores_result.
Print Assumptions C05_callback_exactly_once.
Print Assumptions C05_callback_exactly_once_every_order.
Print Assumptions C05_callback_not_before_the_store.
Print Assumptions C05_callbacks_are_completed_updates.

(* ====================== C04 in Herlihy-Wing form: histories whose operations include every Scan step ====================== *)

(* The history of an execution keeps invocations and responses of the point operations and, for a scan, the
   NewScanner call, one response per Scan step (HPair t e / HEnd t) and the final return.  Scan step 1 is the
   query "least stored key >= start" with interval [NewScanner call, first response]; step j+1 is the query
   "least stored key > key of pair j" with interval [response j, response j+1].  [linearizable_q] asks for ONE
   sequential witness of all completed point operations and all answered Scan steps, legal for the ideal map
   (queries leave the map unchanged), giving each its response, and respecting the real-time order of the
   intervals (TBs_Def.v).  Every execution of the model, under every schedule, has such a witness. *)
Theorem C04_history_with_scan_steps_linearizable :
  forall (K V : Type) (ltb : K -> K -> bool), SWO ltb -> forall order, Nat.even order = true -> 4 <= order ->
  forall (progs : list (tid * list (cop K V))) sched, NoDup (map fst progs) ->
  linearizable_q ltb (qhistory_of (itrace ltb order (iinit progs) sched)).
Proof. exact scan_history_linearizable. Qed.
Print Assumptions C04_history_with_scan_steps_linearizable.

(* the definition has teeth: it accepts a scan that runs concurrently with two inserts and misses the one
   linearized between its two steps, and it rejects the history of defect D6 (a second cursor saw 23 stored and 25
   not yet; afterwards the first cursor's first pair is 25 although 23 >= 22 was stored before 25) *)
Theorem C04_definition_accepts_a_concurrent_scan : linearizable_q Nat.ltb h_good.
Proof. exact concurrent_scan_linearizable. Qed.
Theorem C04_definition_rejects_the_D6_history : ~ linearizable_q Nat.ltb h_bad.
Proof. exact task_history_not_linearizable. Qed.
Print Assumptions C04_definition_accepts_a_concurrent_scan.
Print Assumptions C04_definition_rejects_the_D6_history.

(* ====================== C06: every execution is finite and ends with every call returned ====================== *)

(* Whatever the schedule, the number of steps an execution of the client programs takes is bounded by a number
   that depends on the programs only: bound = sum over all calls of (3 * P0 + 2 * scan length + 6), where P0 is the
   number of Insert/Update calls in all programs (the potential that bounds every height the tree can reach). *)
Theorem C06_every_execution_is_finite :
  forall (K V : Type) (ltb : K -> K -> bool) (order : nat), SWO ltb -> Nat.even order = true -> 4 <= order ->
  forall (progs : list (tid * list (cop K V))), NoDup (map fst progs) ->
  forall sched, length (snd (exec ltb order (init_st progs) sched)) <= bound K V progs.
Proof. exact execution_length_le_bound. Qed.

(* a reachable state in which no thread can take a step is one in which every thread is idle with an empty
   program: an execution can only stop because everything has returned (no deadlock, no panic) *)
Theorem C06_an_execution_stops_only_when_all_calls_returned :
  forall (K V : Type) (ltb : K -> K -> bool) (order : nat), SWO ltb -> Nat.even order = true -> 4 <= order ->
  forall (progs : list (tid * list (cop K V))), NoDup (map fst progs) ->
  forall sched, let s := fst (exec ltb order (init_st progs) sched) in
  (forall t s' acq ev, cstep ltb order s t <> Stepped s' acq ev) ->
  forall t th, get_thread t (ths s) = Some th -> tpc th = Idle /\ prog th = [].
Proof. exact stuck_means_done. Qed.

(* there is no infinite execution: along any infinite sequence of scheduling choices the execution stops growing *)
Theorem C06_no_infinite_execution :
  forall (K V : Type) (ltb : K -> K -> bool) (order : nat), SWO ltb -> Nat.even order = true -> 4 <= order ->
  forall (progs : list (tid * list (cop K V))), NoDup (map fst progs) ->
  forall f : nat -> tid, exists n, forall m, n <= m ->
    snd (exec ltb order (init_st progs) (prefix f m)) = snd (exec ltb order (init_st progs) (prefix f n)).
Proof. exact no_infinite_execution. Qed.

Print Assumptions C06_every_execution_is_finite.
Print Assumptions C06_an_execution_stops_only_when_all_calls_returned.
Print Assumptions C06_no_infinite_execution.

(* ====================== closing lemmas asked for by an independent review of the statements ====================== *)

(* C10, last clause, read as DIRECT blocking: a thread whose awaited lock is unavailable because of a resting cursor,
   a hopping cursor or a thread parked in an Update callback awaits exactly that thread's one leaf (it holds nothing
   else, in particular not the tree mutex).  Transitive blocking through a Delete that needs the leaf is a different
   matter: DESIGN.md section 6, C10. *)
Theorem C10_cursor_blocks_only_its_leaf :
  forall (K V : Type) (ltb : K -> K -> bool), SWO ltb -> forall order, Nat.even order = true -> 4 <= order ->
  forall (progs : list (tid * list (cop K V))) (sched : list tid) (t : tid) (th : thread K V)
         (u : tid) (thu : thread K V) (l : id) (tg : option (option id)),
  NoDup (map fst progs) ->
  let s := fst (exec ltb order (init_st progs) sched) in
  get_thread t (ths s) = Some th ->
  (exists i n acc, tpc th = CurRest l i n acc) \/
  (exists nxt n acc, tpc th = CurWantNext l nxt n acc) \/
  (exists o m i, tpc th = UpdCallback o l m i) ->
  u <> t -> get_thread u (ths s) = Some thu -> target s (tpc thu) = Ok tg ->
  (exists x, tg = Some (Some x) /\ holder x (lk s) = Some t) \/ (tg = Some None /\ tm s = Some t) ->
  tg = Some (Some l).
Proof. exact cursor_blocks_only_its_leaf. Qed.
Print Assumptions C10_cursor_blocks_only_its_leaf.

(* C08 as worded: whenever no operation is in flight the sequential shape invariant holds in full (ordering with
   separator bounds, equal depth, capacity, minimum occupancy with no exemption) and the leaf chain is the in-order
   succession of the leaves *)
Theorem C08_quiescent_states_satisfy_the_shape_invariant :
  forall (K V : Type) (ltb : K -> K -> bool), SWO ltb -> forall order, Nat.even order = true -> 4 <= order ->
  forall (progs : list (tid * list (cop K V))) (sched : list tid), NoDup (map fst progs) ->
  let s := fst (exec ltb order (init_st progs) sched) in
  (forall t th, get_thread t (ths s) = Some th -> tpc th = Idle) ->
  Inv ltb order (erase_ids (tr s)) /\ chain_ok (leaf_links (tr s)).
Proof. exact quiescent_Inv. Qed.
Print Assumptions C08_quiescent_states_satisfy_the_shape_invariant.

(* C07_writes_only_under_lock_exact with its premise [lossless] discharged for reachable states *)
Theorem C07_writes_only_under_lock_exact_closed :
  forall (K V : Type) (ltb : K -> K -> bool), SWO ltb -> forall order, Nat.even order = true -> 4 <= order ->
  forall (progs : list (tid * list (cop K V))) (sched : list tid) me s' acq ev x,
  NoDup (map fst progs) ->
  let s := reach ltb order progs sched in
  cstep ltb order s me = Stepped s' acq ev ->
  In x (ids (tr s)) -> ~ In x (held_by me (lk s)) -> acq <> Some (Some x) ->
  node_view x (tr s') = node_view x (tr s).
Proof. exact writes_only_under_lock_exact_closed. Qed.
Print Assumptions C07_writes_only_under_lock_exact_closed.

(* C12: every order the constructors accept is even and >= 2 (>= 4 unless it is 2), hence satisfies the premise of
   C01_refines_map: every history from the empty tree returns what the ideal map returns (order 2: without Delete) *)
Theorem C12_accepted_orders_are_usable :
  forall (K V : Type) (ltb : K -> K -> bool), SWO ltb ->
  forall (o : Z) (ops : list (op K V)), check_order o = true -> (o <> 2%Z \/ no_delete ops) ->
  exists t : tree K V,
    run_tree ltb (Z.to_nat o) (Leaf []) ops = Ok (t, snd (run_spec ltb [] ops)) /\
    entries t = fst (run_spec ltb [] ops) /\ Inv ltb (Z.to_nat o) t.
Proof. exact accepted_orders_are_usable. Qed.
Print Assumptions C12_accepted_orders_are_usable.

(* ====================== order 2 (client programs without Delete: known finding K1) ====================== *)

(* the Herlihy-Wing form of C03 for every even order >= 2 when no program contains a Delete *)
Theorem C03_history_linearizable_order2_no_delete :
  forall (K V : Type) (ltb : K -> K -> bool), SWO ltb -> forall order, Nat.even order = true -> 2 <= order ->
  forall (progs : list (tid * list (cop K V))), NoDup (map fst progs) -> no_delete_progs K V progs ->
  forall sched, TB_HW.linearizable ltb (TB_HW.history_of (itrace ltb order (iinit progs) sched)).
Proof. exact history_linearizable_order2_no_delete. Qed.
Print Assumptions C03_history_linearizable_order2_no_delete.

(* the counter corollary of C05 for every even order >= 2 when no program contains a Delete *)
Theorem C05_counter_order2_no_delete :
  forall (K V : Type) (ltb : K -> K -> bool), SWO ltb -> forall order, Nat.even order = true -> 2 <= order ->
  forall (progs : list (tid * list (cop K V))), NoDup (map fst progs) -> no_delete_progs K V progs ->
  forall (k : K) (inc : option V -> V),
  (forall t p o, In (t, p) progs -> In o p -> is_writer K V ltb k o = true -> exists k', o = CUpdate k' inc) ->
  forall sched, let final := is_st (iexec ltb order (iinit progs) sched) in
  (forall t, In t (map fst progs) -> unfinished final t = false) ->
  lookup ltb k (abs ltb final) = Nat.iter (writers K V ltb progs k) (fun a => Some (inc a)) None.
Proof. exact counter_order2_no_delete. Qed.
Print Assumptions C05_counter_order2_no_delete.

(* the callback step of Update for every even order >= 2 when no program contains a Delete *)
Theorem C05_callback_sees_current_value_order2_no_delete :
  forall (K V : Type) (ltb : K -> K -> bool), SWO ltb -> forall order, Nat.even order = true -> 2 <= order ->
  forall (progs : list (tid * list (cop K V))), NoDup (map fst progs) -> no_delete_progs K V progs ->
  forall sched0 s' t th o leaf mode index acq ev,
  get_thread t (ths (fst (exec ltb order (init_st progs) sched0))) = Some th ->
  tpc th = UpdCallback o leaf mode index ->
  cstep ltb order (fst (exec ltb order (init_st progs) sched0)) t = Stepped s' acq ev ->
  exists k f th',
    let arg := lookup ltb k (abs ltb (fst (exec ltb order (init_st progs) sched0))) in
    o = CUpdate k f /\ hd_error (prog th) = Some o /\ acq = None /\
    get_thread t (ths s') = Some th' /\ tpc th' = Idle /\ prog th' = tl (prog th) /\
    results th' = RArg K arg :: results th /\
    ev = [EReturn (RArg K arg)] /\
    lp_step ltb (fst (exec ltb order (init_st progs) sched0)) t acq ev s' = Some (OUpdate k f) /\
    abs ltb s' = put ltb k f (abs ltb (fst (exec ltb order (init_st progs) sched0))) /\
    lookup ltb k (abs ltb s') = Some (f arg) /\
    exists k', eqv ltb k k' /\ In (k', f arg) (abs ltb s').
Proof. exact C05_callback_step_order2_no_delete. Qed.
Print Assumptions C05_callback_sees_current_value_order2_no_delete.
